package main

// Bridging lemmas proved in Lean (back end "lean"): /verif/lean/Bridge.lean defines the walkers' one-level relations over a
// tree model of JSON values (the atoms RelQ / RelA unfolded into their defining relations) and proves, by structural
// induction, the whole-tree statements the property texts make: L-shape (C03), L-clean (C01), L-ni (C02), L-fix (C19).
// An obligation bridge/<lemma> is discharged when lean accepts the file, the theorem is in it, and `#print axioms` shows
// that it rests on nothing but Lean's own logical axioms (no sorry, no axiom declared in the file).

import (
	"os"
	"os/exec"
	"path/filepath"
	"regexp"
	"strings"
	"time"
)

var bridgeOnce struct {
	done bool
	ok   bool
	out  string
	src  string
	ms   int64
}

var bridgeLemmas = map[string][]struct{ name, theorem, says string }{
	"C03": {{"L-shape", "shape_of_relV", "trees related by the walkers' relations have the same shape: same kind at every node, same number of entries / elements, keys in the same order (equal keys unless field names are renamed)"}},
	"C01": {{"L-clean", "clean_of_relV", "every string leaf of a tree related to the input by the walkers' relations is admissible at its position (class placeholder, ciphertext, pseudonym, '$'-reference, or kept at a policy-exempt key)"}},
	"C02": {{"L-ni", "ni_V", "with the exact leaf function, two input trees that differ only inside sensitive leaves of one lexical class have the same redaction"}},
	"C19": {{"L-fix", "fix_V", "with the exact leaf function and its idempotence lemma, the redaction of a redacted tree is that tree"}},
}

func runBridge() {
	if bridgeOnce.done {
		return
	}
	bridgeOnce.done = true
	file := filepath.Join(verifDir, "lean", "Bridge.lean")
	b, err := os.ReadFile(file)
	if err != nil {
		bridgeOnce.out = err.Error()
		return
	}
	bridgeOnce.src = string(b)
	if regexp.MustCompile(`(?m)\bsorry\b|\badmit\b|^\s*axiom\b`).MatchString(stripLeanComments(bridgeOnce.src)) {
		bridgeOnce.out = "Bridge.lean contains sorry / admit / axiom"
		return
	}
	start := time.Now()
	out, err := exec.Command("lean", file).CombinedOutput()
	bridgeOnce.ms = time.Since(start).Milliseconds()
	bridgeOnce.out = string(out)
	bridgeOnce.ok = err == nil && !strings.Contains(bridgeOnce.out, "error")
}

func (s *Session) bridgeObligations(prop string) []*Obligation {
	ls := bridgeLemmas[prop]
	if len(ls) == 0 {
		return nil
	}
	runBridge()
	var out []*Obligation
	for _, l := range ls {
		ob := &Obligation{Name: "bridge/" + l.name, Fn: "lean/Bridge.lean", Kind: "lemma", Props: []string{prop}, Backend: "lean", Result: "unsat", Ms: bridgeOnce.ms,
			Clause: l.says + " (theorem Bridge." + l.theorem + ")"}
		ax := regexp.MustCompile(`(?s)'Bridge\.` + regexp.QuoteMeta(l.theorem) + `' (does not depend on any axioms|depends on axioms: \[([^\]]*)\])`).FindStringSubmatch(bridgeOnce.out)
		switch {
		case !bridgeOnce.ok:
			ob.Result, ob.Raw = "error", "lean does not accept Bridge.lean: "+bridgeOnce.out
		case !regexp.MustCompile(`(?m)^\s*theorem `+regexp.QuoteMeta(l.theorem)+`\b`).MatchString(bridgeOnce.src):
			ob.Result, ob.Raw = "error", "theorem "+l.theorem+" is not in Bridge.lean"
		case ax == nil:
			ob.Result, ob.Raw = "error", "no '#print axioms' answer for Bridge."+l.theorem
		default:
			for _, a := range strings.Split(ax[2], ",") {
				a = strings.TrimSpace(a)
				if a != "" && a != "propext" && a != "Quot.sound" && a != "Classical.choice" {
					ob.Result, ob.Raw = "error", "Bridge."+l.theorem+" depends on "+a
				}
			}
		}
		out = append(out, ob)
	}
	return out
}
