package main

// Calls: builtins, contracts (own and assumed), inlining of small uncontracted helpers, defers.

import (
	"fmt"
	"go/ast"
	"go/types"
	"strings"

	"golang.org/x/tools/go/ssa"
)

func (fr *Frame) execCall(v ssa.Value, c *ssa.CallCommon, st *State, alive *Term, in ssa.Instruction) *Term {
	out := fr.execCall1(v, c, st, alive, in)
	if fr.top {
		name := calleeName(c)
		for _, ac := range fr.vc.ct.AssumeAfter {
			target, recvName, hasRecv := strings.Cut(ac.Var, "@")
			if target != name && target != fr.ord(in) {
				continue
			}
			if hasRecv && (len(c.Args) == 0 || !fr.valueNamed(c.Args[0], recvName)) {
				continue
			}
			e2 := fr.env0.child()
			e2.st = st
			e2.old = fr.env0
			e2.where = ac.Line
			if t, ok := fr.vals[v]; ok {
				e2.vars["result"], e2.vars["result0"] = t, t
			}
			for i, t := range fr.tuples[v] {
				if t != nil {
					e2.vars[fmt.Sprintf("result%d", i)] = t
					if i == 0 {
						e2.vars["result"] = t
					}
				}
			}
			e2.resolve = func(nm string) (*Term, bool) { return fr.resolveAt(nm, in, st) }
			t, err := e2.Parse(ac.Expr)
			if err != nil {
				panic(&exprError{err.Error()})
			}
			if ac.Kind == "snapshot_after" {
				name, _, _ := strings.Cut(ac.Label, ":")
				fr.env0.vars[name] = fr.vc.define("snap_"+name, t)
				continue
			}
			if ac.Kind == "assert_after" {
				fr.vc.oblige(fmt.Sprintf("after:%s[%s]", fr.ord(in), ac.Label), "assert", ac.Props, fr.vc.pos(in.Pos()), out, t, ac.Expr)
				continue
			}
			fr.vc.assume(Implies(out, t))
			fr.vc.explicitAssumes = append(fr.vc.explicitAssumes, fmt.Sprintf("%s after %s: %s [%s]", fr.vc.fnName(), fr.ord(in), ac.Expr, ac.Label))
		}
	}
	return out
}

func (fr *Frame) execCall1(v ssa.Value, c *ssa.CallCommon, st *State, alive *Term, in ssa.Instruction) *Term {
	vc := fr.vc
	g := vc.g
	if b, ok := c.Value.(*ssa.Builtin); ok {
		fr.execBuiltin(v, b, c, st, alive, in)
		return alive
	}
	name := calleeName(c)
	var args []*Term
	var argTypes []types.Type
	if c.IsInvoke() {
		recv := fr.val(c.Value)
		args = append(args, recv)
		argTypes = append(argTypes, c.Value.Type())
		// a method call through a nil interface value panics
		if recv.Sort == SInt {
			nn := Not(Eq(recv, IntLit(0)))
			if vc.ct.MayPanic {
				vc.assume(Implies(alive, nn))
			} else {
				fr.safety(in, "nil-invoke", fr.ordOr(in, name), alive, nn)
			}
		}
	}
	for _, a := range c.Args {
		if g.sortOf(a.Type()) == SNone {
			continue
		}
		args = append(args, fr.val(a))
		argTypes = append(argTypes, a.Type())
	}
	sig := c.Signature()
	ct := g.spec.Contracts[name]
	if ct == nil {
		fn := c.StaticCallee()
		if fn != nil && fn.Pkg == g.pkg && fn.Blocks != nil && vc.inlineDepth < 3 && !isRecursive(fn) {
			return fr.inline(v, fn, c, args, st, alive, in)
		}
		// default for unlisted externals: total, no effect on modelled state, result unconstrained
		if fn != nil && fn.Pkg == g.pkg {
			unsupported("call to %s: no contract and cannot inline", name)
		}
		vc.assumedExt[name] = true
		fr.bindResults(v, sig, nil, st)
		// pointer arguments that are local cells may be written by the callee
		for _, a := range c.Args {
			if pt, ok := a.Type().Underlying().(*types.Pointer); ok {
				if _, isAlloc := a.(*ssa.Alloc); isAlloc {
					for _, cm := range fr.cellComps(pt.Elem()) {
						st.Set(cm, vc.fresh(compSym(cm), g.compSort(cm)))
					}
				}
			}
		}
		return alive
	}
	vc.usedCt[name] = true
	return fr.applyContract(v, ct, name, c, sig, args, argTypes, st, alive, in)
}

func isRecursive(fn *ssa.Function) bool {
	for _, b := range fn.Blocks {
		for _, in := range b.Instrs {
			if call, ok := in.(ssa.CallInstruction); ok {
				if call.Common().StaticCallee() == fn {
					return true
				}
			}
		}
	}
	return false
}

// bindResults creates fresh result values for a call and records them for v.
func (fr *Frame) bindResults(v ssa.Value, sig *types.Signature, names []string, st *State) []*Term {
	vc := fr.vc
	g := vc.g
	var res []*Term
	for i := 0; i < sig.Results().Len(); i++ {
		rt := sig.Results().At(i).Type()
		s := g.sortOf(rt)
		if s == SNone {
			res = append(res, nil)
			continue
		}
		nm := fmt.Sprintf("r%d", i)
		if v != nil {
			nm = v.Name() + "_" + nm
		}
		t := vc.fresh(fr.name(nm), s)
		t.Ty = rt
		if s == SSlice {
			vc.assume(sliceWF(t))
			vc.assume(Le(mk("sbase", SInt, t), st.Get(g, "heapTop")))
			if sl, ok := rt.Underlying().(*types.Slice); ok {
				t.Elem = g.sortOf(sl.Elem())
			}
		}
		if _, isPtr := rt.Underlying().(*types.Pointer); isPtr {
			vc.assume(And(mk(">=", SBool, t, IntLit(0)), Le(t, st.Get(g, "heapTop"))))
		}
		res = append(res, t)
	}
	if v != nil {
		switch len(res) {
		case 0:
		case 1:
			if res[0] != nil {
				fr.vals[v] = res[0]
			}
		default:
			fr.tuples[v] = res
		}
	}
	return res
}

func (fr *Frame) applyContract(v ssa.Value, ct *Contract, name string, c *ssa.CallCommon, sig *types.Signature, args []*Term, argTypes []types.Type, st *State, alive *Term, in ssa.Instruction) *Term {
	vc := fr.vc
	g := vc.g
	pre := st.Clone()
	env := &Env{g: g, vars: map[string]*Term{}, st: pre, where: ct.Source, ctx: []string{name}}
	// parameter names: from the contract header, else from the callee's SSA/signature
	pnames := ct.Params
	if len(pnames) == 0 {
		if fn := c.StaticCallee(); fn != nil {
			for _, p := range fn.Params {
				if g.sortOf(p.Type()) != SNone {
					pnames = append(pnames, p.Name())
				}
			}
			if _, isClosure := c.Value.(*ssa.MakeClosure); isClosure {
				// free variables are addressed by name
			}
		}
	}
	if len(pnames) != len(args) && !(len(pnames) < len(args) && ct.External) {
		if len(pnames) > len(args) {
			unsupported("contract %s names %d parameters, call has %d arguments", name, len(pnames), len(args))
		}
	}
	for i, a := range args {
		if i < len(pnames) {
			env.vars[pnames[i]] = g.withType(a, argTypes[i])
		}
	}
	if mc, ok := c.Value.(*ssa.MakeClosure); ok {
		fnc := mc.Fn.(*ssa.Function)
		for i, fv := range fnc.FreeVars {
			env.vars[fv.Name()] = fr.val(mc.Bindings[i])
		}
	}
	env.old = env
	// locals of the callee's contract are definitions over its entry state
	for _, l := range ct.Locals {
		e2 := *env
		e2.where = l.Line
		t, err := e2.Parse(l.Expr)
		if err != nil {
			panic(&exprError{err.Error()})
		}
		env.vars[l.Var] = t
	}
	ord := fr.ord(in)
	if ord == "" {
		ord = name
	}
	// 1. preconditions
	for i, r := range ct.Requires {
		e2 := *env
		e2.where = r.Line
		t, err := e2.Parse(r.Expr)
		if err != nil {
			panic(&exprError{err.Error()})
		}
		label := r.Label
		if label == "" {
			label = fmt.Sprintf("%d", i+1)
		}
		props := r.Props
		oname := fmt.Sprintf("pre:%s[%s]", ord, label)
		if !fr.top {
			oname = fr.oblPref + oname
		}
		vc.oblige(oname, "pre", props, vc.pos(in.Pos()), alive, t, r.Expr)
	}
	// 1b. the at_call assertions of the function under contract for this callee; they also apply to calls made from an
	// inlined (uncontracted) helper: the clause is then stated over the top frame's locals as of the inlining call
	atf, atin := fr, in
	for !atf.top && atf.parent != nil {
		atf, atin = atf.parent, atf.site
	}
	if atf.top {
		for i, ac := range vc.ct.AtCalls {
			target, recvName, hasRecv := strings.Cut(ac.Var, "@")
			if target != name && (!fr.top || target != fr.ord(in)) {
				continue
			}
			if hasRecv {
				// CALLEE@local: only call sites whose receiver / first argument is the local of that name;
				// CALLEE@param=local: only call sites where the argument for that parameter is that local
				idx := 0
				if pn, ln, ok := strings.Cut(recvName, "="); ok {
					idx = -1
					if fn := c.StaticCallee(); fn != nil {
						pn = g.currentName([]string{shortFnName(fn)}, pn)
						for k, p := range fn.Params {
							if p.Name() == pn {
								idx = k
							}
						}
					}
					recvName = ln
				}
				if idx < 0 || idx >= len(c.Args) {
					continue
				}
				if fr.top {
					if !fr.valueNamed(c.Args[idx], g.currentName(fr.env0.ctx, recvName)) {
						continue
					}
				} else {
					// inside a helper the local has another name: compare the value handed over with the top frame's local
					want, ok := atf.resolveAt(g.currentName(atf.env0.ctx, recvName), atin, st)
					if !ok || want.String() != fr.val(c.Args[idx]).String() {
						continue
					}
				}
			}
			e2 := atf.env0.child()
			e2.st = st
			e2.old = atf.env0
			e2.where = ac.Line
			e2.ctx = append(append([]string{}, atf.env0.ctx...), name)
			for k, val := range env.vars {
				if _, clash := e2.vars[k]; !clash {
					e2.vars[k] = val
				}
				e2.vars["arg_"+k] = val // the callee's parameter, also when the caller has a variable of the same name
			}
			// a parameter of the callee that was renamed since the clause was written is still known by its recorded name
			for oldName, cur := range g.renames[name] {
				if val, ok := env.vars[cur]; ok {
					if _, clash := e2.vars[oldName]; !clash {
						e2.vars[oldName] = val
					}
					e2.vars["arg_"+oldName] = val
				}
			}
			e2.resolve = func(nm string) (*Term, bool) { return atf.resolveAt(nm, atin, st) }
			e2.resolveAddr = atf.allocRef
			t, err := e2.Parse(ac.Expr)
			clauseTxt := ac.Expr
			if err != nil {
				if !strings.Contains(err.Error(), "unknown identifier") {
					panic(&exprError{err.Error()})
				}
				// a name of the clause has no definition that reaches this call site (e.g. a new call of the callee before the
				// local it speaks about is computed): the clause cannot hold here; the obligation fails unless the site is dead
				t = False
				clauseTxt = ac.Expr + "   [does not bind at this call site: " + err.Error() + "]"
			}
			label := ac.Label
			if label == "" {
				label = fmt.Sprintf("%d", i+1)
			}
			aord := ord
			if !fr.top {
				aord = fr.oblPref + name
			}
			vc.oblige(fmt.Sprintf("at:%s[%s]", aord, label), "at_call", ac.Props, vc.pos(in.Pos()), alive, t, clauseTxt)
		}
	}
	// 2. exit conditions of the caller at terminal calls
	if ct.Terminal {
		// the exit conditions belong to the function under contract: inside an inlined helper they are stated over the
		// top frame's locals as of the call that (transitively) led here, and over the current state
		tf, tin := fr, in
		for !tf.top && tf.parent != nil {
			tf, tin = tf.parent, tf.site
		}
		if tf.top {
			if !fr.top {
				ord = fr.oblPref + name
			}
			for i, er := range vc.ct.ExitReq {
				e2 := tf.env0.child()
				e2.st = st
				e2.old = tf.env0
				e2.where = er.Line
				e2.resolve = func(nm string) (*Term, bool) { return tf.resolveAt(nm, tin, st) }
				for k, val := range env.vars { // callee parameters (e.g. code)
					if _, clash := e2.vars[k]; !clash {
						e2.vars[k] = val
					}
				}
				t, err := e2.Parse(er.Expr)
				if err != nil {
					panic(&exprError{err.Error()})
				}
				label := er.Label
				if label == "" {
					label = fmt.Sprintf("%d", i+1)
				}
				vc.obligeNoAssume(fmt.Sprintf("exit:%s@%s", label, ord), "exit", er.Props, vc.pos(in.Pos()), alive, t, er.Expr)
			}
		} else {
			unsupported("terminal call %s inside inlined function", name)
		}
		fr.bindResults(v, sig, ct.Results, st)
		return False
	}
	// 3. effects: havoc assigned components, ghost updates
	post := st
	ms := fr.vc.contractMods(ct, c.StaticCallee(), map[*ssa.Function]bool{})
	for _, comp := range sortedKeys(ms.full) {
		nv := vc.fresh(compSym(comp), g.compSort(comp))
		nv.Ty = pre.Get(g, comp).Ty
		post.Set(comp, nv)
		if comp == "heapTop" {
			vc.assume(Implies(alive, Le(pre.Get(g, comp), nv)))
		}
	}
	for _, comp := range sortedKeys(ms.fresh) {
		if ms.full[comp] {
			continue
		}
		old := pre.Get(g, comp)
		nv := vc.fresh(compSym(comp), g.compSort(comp))
		post.Set(comp, nv)
		r := Const("?r", SInt)
		vc.assume(Forall([]*Term{r}, Implies(Le(r, pre.Get(g, "heapTop")), Eq(Select(nv, r), Select(old, r))), Select(nv, r)))
	}
	for _, hc := range ct.HavocCells {
		if p, ok := env.vars[hc]; ok && p.Ty != nil {
			if pt, ok := p.Ty.Underlying().(*types.Pointer); ok {
				for _, cm := range fr.cellComps(pt.Elem()) {
					old := post.Get(g, cm)
					hv := vc.fresh(compSym(cm)+"_hv", g.compSort(cm).ArrayElem())
					post.Set(cm, vc.define(compSym(cm), Store(old, p, hv)))
				}
			}
		}
	}
	res := fr.bindResults(v, sig, ct.Results, post)
	penv := env.child()
	penv.st = post
	penv.old = env
	rnames := ct.Results
	for i, r := range res {
		if r == nil {
			continue
		}
		penv.vars[fmt.Sprintf("result%d", i)] = r
		if i == 0 {
			penv.vars["result"] = r
		}
		if i < len(rnames) {
			penv.vars[rnames[i]] = r
		} else if n := sig.Results().At(i).Name(); n != "" && n != "_" {
			if _, clash := penv.vars[n]; !clash {
				penv.vars[n] = r
			}
		}
	}
	// names the callee's contract gives to intermediate states (snapshot_after) are existentially quantified for the caller
	for _, sn := range ct.AssumeAfter {
		if sn.Kind != "snapshot_after" {
			continue
		}
		name, sortName, ok := strings.Cut(sn.Label, ":")
		if !ok {
			panic(&exprError{sn.Line + ": snapshot_after needs NAME:SORT so that callers can quantify it"})
		}
		penv.vars[name] = vc.fresh("ex_"+name, parseSort(sortName))
	}
	for _, l := range ct.PostLocals {
		e2 := *penv
		e2.where = l.Line
		t, err := e2.Parse(l.Expr)
		if err != nil {
			panic(&exprError{err.Error()})
		}
		penv.vars[l.Var] = t
	}
	for _, s := range ct.Sets {
		e2 := *penv
		e2.st = pre // right-hand sides read the pre-state (results are bound)
		e2.where = s.Line
		t, err := e2.Parse(s.Expr)
		if err != nil {
			panic(&exprError{err.Error()})
		}
		comp := compOfAssign(g, s.Var)
		if t.Sort != g.compSort(comp) {
			panic(&exprError{fmt.Sprintf("%s: sets %s: sort %s, want %s", s.Line, s.Var, t.Sort, g.compSort(comp))})
		}
		post.Set(comp, vc.define(compSym(comp), t))
	}
	// 3b. atoms defined by the callee: the defining formula was proved in the callee's own VC; the caller learns
	// both the formula (over this call's pre/post state) and the time-independent atom
	for _, d := range ct.Defines {
		e2 := *penv
		e2.where = d.Line
		f, err := e2.Parse(d.Expr)
		if err != nil {
			panic(&exprError{err.Error()})
		}
		a, err := e2.Parse(d.Var)
		if err != nil {
			panic(&exprError{err.Error()})
		}
		if f.Op == "=>" && len(f.Args) == 2 {
			// conditional definition: the atom is known only under the condition of its defining formula
			a = Implies(f.Args[0], a)
		}
		vc.assume(Implies(alive, And(f, a)))
	}
	// 4. postconditions
	for _, e := range append(append([]*Clause{}, ct.Ensures...), ct.TrustedEns...) {
		e2 := *penv
		e2.where = e.Line
		t, err := e2.Parse(e.Expr)
		if err != nil {
			panic(&exprError{err.Error()})
		}
		vc.assume(Implies(alive, t))
	}
	return alive
}

// ---- inlining ----------------------------------------------------------------------------------

func (fr *Frame) inline(v ssa.Value, fn *ssa.Function, c *ssa.CallCommon, args []*Term, st *State, alive *Term, in ssa.Instruction) *Term {
	vc := fr.vc
	g := vc.g
	vc.inlineDepth++
	defer func() { vc.inlineDepth-- }()
	g.fresh++
	sub := vc.newFrame(fn, fmt.Sprintf("%si%d_", fr.prefix, g.fresh), false)
	sub.oblPref = fmt.Sprintf("%sinl:%s/", fr.oblPref, strings.TrimSuffix(fr.ordOr(in, shortFnName(fn)), ""))
	sub.parent, sub.site = fr, in
	sub.env0 = &Env{g: g, vars: map[string]*Term{}, st: st}
	sub.env0.old = sub.env0
	i := 0
	for _, p := range fn.Params {
		if g.sortOf(p.Type()) == SNone {
			continue
		}
		sub.vals[p] = g.withType(args[i], p.Type())
		sub.env0.vars[p.Name()] = sub.vals[p]
		i++
	}
	if mc, ok := c.Value.(*ssa.MakeClosure); ok {
		for j, fv := range fn.FreeVars {
			sub.vals[fv] = fr.val(mc.Bindings[j])
		}
	}
	sub.reach[fn.Blocks[0]] = alive
	sub.run(st) // mutates st along the way; returns carry their own states
	if len(sub.rets) == 0 {
		return False
	}
	guard, results, fin := sub.mergeReturns()
	// continue in the merged final state
	for k, t := range fin.m {
		st.Set(k, t)
	}
	if v != nil {
		switch len(results) {
		case 0:
		case 1:
			fr.vals[v] = g.withType(results[0], v.Type())
		default:
			fr.tuples[v] = results
		}
	}
	return guard
}

// valueNamed: does the source-level local `name` denote SSA value v (by debug information)?
func (fr *Frame) valueNamed(v ssa.Value, name string) bool {
	// an argument of interface type is the conversion of the named value
	for i := 0; i < 3; i++ {
		switch c := v.(type) {
		case *ssa.MakeInterface:
			v = c.X
		case *ssa.ChangeInterface:
			v = c.X
		case *ssa.ChangeType:
			v = c.X
		}
	}
	for _, b := range fr.fn.Blocks {
		for _, in := range b.Instrs {
			if d, ok := in.(*ssa.DebugRef); ok && !d.IsAddr && d.X == v {
				if id, ok := d.Expr.(*ast.Ident); ok && id.Name == name {
					return true
				}
			}
		}
	}
	return false
}

func (fr *Frame) ordOr(in ssa.Instruction, d string) string {
	if o := fr.ord(in); o != "" {
		return o
	}
	return d
}

// ---- defers -------------------------------------------------------------------------------------

func (fr *Frame) runDeferred(d deferRec, st *State, alive *Term) {
	vc := fr.vc
	g := vc.g
	c := d.call.Common()
	name := calleeName(c)
	ct := g.spec.Contracts[name]
	if ct == nil {
		// unlisted deferred external (Close etc.): no effect on modelled state
		if fn := c.StaticCallee(); fn != nil && fn.Pkg == g.pkg {
			unsupported("deferred call to %s needs a contract", name)
		}
		vc.assumedExt[name] = true
		return
	}
	vc.usedCt[name] = true
	// the deferred call runs iff the defer statement was reached
	cond := And(alive, d.guard)
	before := st.Clone()
	var args []*Term
	var argTypes []types.Type
	if c.IsInvoke() {
		args = append(args, fr.val(c.Value))
		argTypes = append(argTypes, c.Value.Type())
	}
	for _, a := range c.Args {
		if g.sortOf(a.Type()) == SNone {
			continue
		}
		args = append(args, fr.val(a))
		argTypes = append(argTypes, a.Type())
	}
	fr.applyContract(nil, ct, name, c, c.Signature(), args, argTypes, st, cond, d.call)
	// merge: effects only if the defer was registered
	for _, k := range st.Comps() {
		a := st.Get(g, k)
		b := before.Get(g, k)
		if a.String() != b.String() {
			m := vc.define(compSym(k), Ite(d.guard, a, b))
			m.Ty = a.Ty
			st.Set(k, m)
		}
	}
}

// singleVararg: is the variadic operand of append a freshly built one-element array?
func singleVararg(c *ssa.CallCommon) bool {
	if len(c.Args) < 2 {
		return false
	}
	sl, ok := c.Args[1].(*ssa.Slice)
	if !ok || sl.Low != nil || sl.High != nil {
		return false
	}
	al, ok := sl.X.(*ssa.Alloc)
	if !ok {
		return false
	}
	at, ok := al.Type().(*types.Pointer).Elem().Underlying().(*types.Array)
	return ok && at.Len() == 1
}

// ---- builtins -----------------------------------------------------------------------------------

func (fr *Frame) execBuiltin(v ssa.Value, b *ssa.Builtin, c *ssa.CallCommon, st *State, alive *Term, in ssa.Instruction) {
	vc := fr.vc
	g := vc.g
	switch b.Name() {
	case "len":
		a := fr.val(c.Args[0])
		switch a.Sort {
		case SSlice:
			fr.setVal(v, mk("slen_", SInt, a))
		case SStr:
			fr.setVal(v, App("slen", SInt, a))
		default:
			if at, ok := c.Args[0].Type().Underlying().(*types.Array); ok {
				fr.setVal(v, IntLit(at.Len()))
				return
			}
			ln := vc.fresh("len", SInt)
			vc.assume(mk(">=", SBool, ln, IntLit(0)))
			fr.setVal(v, ln)
		}
	case "cap":
		a := fr.val(c.Args[0])
		if a.Sort == SSlice {
			fr.setVal(v, mk("scap", SInt, a))
		} else {
			fr.setVal(v, vc.fresh("cap", SInt))
		}
	case "append":
		s := fr.val(c.Args[0])
		sl := c.Args[0].Type().Underlying().(*types.Slice)
		es := g.sortOf(sl.Elem())
		comp := "Arr:" + string(es)
		var add *Term
		if len(c.Args) > 1 {
			add = fr.val(c.Args[1])
		} else {
			add = Const("nilslice", SSlice)
		}
		if add.Sort == SStr { // append([]byte, string...)
			unsupported("append of string to byte slice")
		}
		h := st.Get(g, comp)
		n := mk("slen_", SInt, add)
		ln := mk("slen_", SInt, s)
		cp := mk("scap", SInt, s)
		base := mk("sbase", SInt, s)
		off := mk("soff", SInt, s)
		newLen := vc.define("applen", Add(ln, n))
		inPlace := vc.define("appinplace", Le(newLen, cp))
		ref := fr.newRef(st, v.Name())
		newCap := vc.fresh("appcap", SInt)
		vc.assume(mk(">=", SBool, newCap, newLen))
		srcArr := Select(h, mk("sbase", SInt, add))
		srcOff := mk("soff", SInt, add)
		cpy := func(dst, dpos, src, spos, cnt *Term) *Term {
			fn := g.autoFun("copyInto_"+string(es), ArrSort(SInt, es), ArrSort(SInt, es), SInt, ArrSort(SInt, es), SInt, SInt)
			as := string(ArrSort(SInt, es))
			g.addAutoAxiom(fn, fmt.Sprintf("(forall ((?d %s) (?dp Int) (?s %s) (?sp Int) (?n Int) (?j Int)) (! (= (select (%s ?d ?dp ?s ?sp ?n) ?j) (ite (and (<= ?dp ?j) (< ?j (+ ?dp ?n))) (select ?s (+ ?sp (- ?j ?dp))) (select ?d ?j))) :pattern ((select (%s ?d ?dp ?s ?sp ?n) ?j))))", as, as, fn, fn))
			return App(fn, ArrSort(SInt, es), dst, dpos, src, spos, cnt)
		}
		inPlaceArr := cpy(Select(h, base), Add(off, ln), srcArr, srcOff, n)
		freshInit := vc.fresh("apparr", ArrSort(SInt, es))
		freshArr := cpy(cpy(freshInit, IntLit(0), Select(h, base), off, ln), ln, srcArr, srcOff, n)
		if one := singleVararg(c); one {
			// append(s, x): the operand array has exactly one element
			x := vc.define("appx", Select(srcArr, srcOff))
			vc.assume(Eq(n, IntLit(1)))
			inPlaceArr = Store(Select(h, base), Add(off, ln), x)
			freshArr = Store(cpy(freshInit, IntLit(0), Select(h, base), off, ln), ln, x)
		}
		st.Set(comp, vc.define(compSym(comp), Ite(inPlace, Store(h, base, inPlaceArr), Store(h, ref, freshArr))))
		res := Ite(inPlace, mk("mkslice", SSlice, base, off, newLen, cp), mk("mkslice", SSlice, ref, IntLit(0), newLen, newCap))
		fr.setVal(v, res)
		fr.vals[v].Elem = es
	case "print", "println":
	default:
		unsupported("builtin %s", b.Name())
	}
}
