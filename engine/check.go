package main

// The per-property check: obligations -> solvers -> lock / known findings -> evidence, replay files, exit status.

import (
	"encoding/json"
	"fmt"
	"os"
	"path/filepath"
	"regexp"
	"sort"
	"strconv"
	"strings"
	"time"

	"golang.org/x/tools/go/ssa"
)

type KnownFinding struct {
	Property   string `json:"property"`
	Obligation string `json:"obligation"`
	Regex      string `json:"obligation_regex,omitempty"` // alternative to Obligation: every obligation whose name matches
	Status     string `json:"status"` // known | fixed
	What       string `json:"what"`
	Witness    string `json:"witness_input,omitempty"`
	Commit     string `json:"commit,omitempty"`
	Also       []string `json:"also_properties,omitempty"` // further properties the same defect violates
}

// knownLine prints the KNOWN-FINDING line of a failed obligation that is a listed finding. The finding is attributed to the
// property it is recorded for: when the obligation merely supports the proof of the property being checked (the relation it
// speaks about is shared), the line names the finding's own property and says so.
func knownLine(prop string, k KnownFinding, name string) {
	if k.Property == prop || hasProp(k.Also, prop) {
		fmt.Printf("KNOWN-FINDING: property=%s %s %s\n", prop, name, k.What)
		return
	}
	fmt.Printf("KNOWN-FINDING: property=%s %s %s [met while checking %s: the obligation is shared with the proof of %s, which it does not violate; it is a listed finding of %s]\n", k.Property, name, k.What, prop, prop, k.Property)
}

type LockFile struct {
	Note        string              `json:"note"`
	Obligations map[string][]string `json:"obligations"` // property -> obligation names
	DeadCanaries []string           `json:"dead_canaries,omitempty"` // reachability probes that are refuted on the unchanged tree (dead code, e.g. a redundant nil check)
	Names        map[string][]DeclName `json:"names,omitempty"`       // per function: declared variables in source order (unchanged tree), to follow pure renames
}

func loadKnown() ([]KnownFinding, error) {
	b, err := os.ReadFile(filepath.Join(verifDir, "known_findings.json"))
	if os.IsNotExist(err) {
		return nil, nil
	}
	if err != nil {
		return nil, err
	}
	var f struct {
		Findings []KnownFinding `json:"findings"`
	}
	if err := json.Unmarshal(b, &f); err != nil {
		return nil, err
	}
	return f.Findings, nil
}

func loadLock() (*LockFile, error) {
	b, err := os.ReadFile(filepath.Join(verifDir, "obligations.lock.json"))
	if os.IsNotExist(err) {
		return &LockFile{Obligations: map[string][]string{}}, nil
	}
	if err != nil {
		return nil, err
	}
	var l LockFile
	if err := json.Unmarshal(b, &l); err != nil {
		return nil, err
	}
	if l.Obligations == nil {
		l.Obligations = map[string][]string{}
	}
	return &l, nil
}

type propRun struct {
	prop      string
	obs       []*Obligation // obligations of this property (all back ends)
	canaries  []*Obligation
	functions []string
	assumed   map[string]bool // externals used under the default no-effect rule
	usedCt    map[string]bool // external contracts relied on
	errors    []string
	bounded   []*Obligation
	trustedOwn []string
	explicit  []string
	unprovedSchema []string // axiom schemas handed to a solver in this run that are not mechanised in lean/Schema.lean
}

// collect generates everything that belongs to one property.
func (s *Session) collect(prop string) *propRun {
	pr := &propRun{prop: prop, assumed: map[string]bool{}, usedCt: map[string]bool{}}
	for _, ct := range s.ownContracts() {
		if !contractMentions(ct, prop) || ct.Trusted {
			continue
		}
		vc, err := s.generate(ct)
		if err != nil {
			pr.errors = append(pr.errors, err.Error())
			continue
		}
		pr.functions = append(pr.functions, ct.Name)
		for k := range vc.assumedExt {
			pr.assumed[k] = true
		}
		for k := range vc.usedCt {
			pr.usedCt[k] = true
		}
		pr.explicit = append(pr.explicit, vc.explicitAssumes...)
		if len(vc.unsupported) > 0 {
			ob := &Obligation{Name: ct.Name + "/subset", Fn: ct.Name, Kind: "subset", Props: []string{prop}, Result: "error", Backend: "vcgen",
				Raw: "function is outside the supported subset or its contract does not bind: " + strings.Join(vc.unsupported, "; "), Pos: ct.Source}
			pr.obs = append(pr.obs, ob)
			continue
		}
		n := 0
		last := -1
		for i, ob := range vc.obs {
			if hasProp(ob.Props, prop) {
				n++
				last = i
			}
		}
		for i, ob := range vc.obs {
			if hasProp(ob.Props, prop) {
				pr.obs = append(pr.obs, ob)
			} else if ob.Assumed && i < last {
				// an obligation of another property that is assumed once asserted: the obligations of this property
				// that follow it in the same function rely on it, so its failure must not go unreported here
				ob.Kind = "supporting:" + strings.TrimPrefix(ob.Kind, "supporting:")
				pr.obs = append(pr.obs, ob)
			}
		}
		if n > 0 {
			pr.canaries = append(pr.canaries, vc.canaries...)
		}
	}
	// Modular soundness: a postcondition that one of the functions above relies on at a call site must itself be proved in
	// THIS check, whatever property its clause is tagged for (four seeded changes were missed because the clause that caught
	// them belonged to a callee that was tagged for another property only). Every own, non-trusted contract that was used and
	// is not part of the property yet is generated too and its postconditions / atom definitions / frames join the check as
	// supporting obligations; transitively.
	included := map[string]bool{}
	for _, n := range pr.functions {
		included[n] = true
	}
	for changed := true; changed; {
		changed = false
		for _, n := range sortedKeys(pr.usedCt) {
			ct := s.g.spec.Contracts[n]
			if ct == nil || ct.External || ct.Trusted || included[n] || s.fns[n] == nil {
				continue
			}
			included[n] = true
			changed = true
			vc, err := s.generate(ct)
			if err != nil {
				pr.errors = append(pr.errors, err.Error())
				continue
			}
			pr.functions = append(pr.functions, ct.Name)
			for k := range vc.assumedExt {
				pr.assumed[k] = true
			}
			for k := range vc.usedCt {
				pr.usedCt[k] = true
			}
			pr.explicit = append(pr.explicit, vc.explicitAssumes...)
			if len(vc.unsupported) > 0 {
				pr.obs = append(pr.obs, &Obligation{Name: ct.Name + "/subset", Fn: ct.Name, Kind: "subset", Props: []string{prop}, Result: "error", Backend: "vcgen",
					Raw: "function is outside the supported subset or its contract does not bind: " + strings.Join(vc.unsupported, "; "), Pos: ct.Source})
				continue
			}
			for _, ob := range vc.obs {
				k := strings.TrimPrefix(ob.Kind, "supporting:")
				if k == "post" || k == "frame" || k == "inv-entry" || k == "inv-preserve" || k == "each-iteration" || k == "at_call" || k == "assert" || k == "pre" || k == "exit" {
					cp := *ob
					cp.Kind = "supporting:" + k
					pr.obs = append(pr.obs, &cp)
				}
			}
		}
	}
	pr.obs = append(pr.obs, s.lemmaObligations(prop)...)
	for _, n := range sortedKeys(pr.usedCt) {
		if ct := s.g.spec.Contracts[n]; ct != nil && !ct.External && ct.Trusted {
			pr.trustedOwn = append(pr.trustedOwn, n)
		}
	}
	extra, err := s.extraObligations(prop)
	if err != nil {
		pr.errors = append(pr.errors, err.Error())
	}
	for _, ob := range extra {
		if ob.Kind == "bounded" {
			pr.bounded = append(pr.bounded, ob)
		} else {
			pr.obs = append(pr.obs, ob)
		}
	}
	return pr
}

var reUnsafe = regexp.MustCompile(`[^A-Za-z0-9_.\-]+`)

func cmdCheck(prop, tier string, jobs int) int {
	s, err := loadSession()
	if err != nil {
		fmt.Printf("ERROR property=%s cannot load /repo/src with the contracts: %v\n", prop, err)
		// a tree that does not load cannot be verified; this is an engine-level failure, not a verdict
		return 2
	}
	defer s.solver.Close()
	return checkOne(s, prop, tier, jobs)
}

// cmdMulti checks several properties in one session: the program is loaded and every function's VCs are generated once,
// and an obligation shared by several properties is solved once. Same output and evidence as the single checks.
func cmdMulti(props []string, tier string, jobs int) int {
	s, err := loadSession()
	if err != nil {
		fmt.Printf("ERROR cannot load /repo/src with the contracts: %v\n", err)
		return 2
	}
	defer s.solver.Close()
	rc := 0
	for _, p := range props {
		if r := checkOne(s, p, tier, jobs); r > rc {
			rc = r
		}
	}
	return rc
}

func checkOne(s *Session, prop, tier string, jobs int) int {
	start := time.Now()
	currentTier = tier
	seed, _ := strconv.Atoi(envOr("VERIF_SEED", "0"))
	evPath := filepath.Join(verifDir, "evidence", prop+".json")
	if os.Getenv("VERIF_REPO") != "" && os.Getenv("VERIF_REPO") != "/repo" {
		// runs against a scratch copy (selftest, seeded changes) must not touch the evidence of the real tree
		evPath = filepath.Join(os.TempDir(), "govc-scratch-evidence-"+prop+".json")
	}
	os.Remove(evPath)
	known, err := loadKnown()
	if err != nil {
		fmt.Println("ERROR known_findings.json:", err)
		return 2
	}
	lock, err := loadLock()
	if err != nil {
		fmt.Println("ERROR obligations.lock.json:", err)
		return 2
	}
	pr := s.collect(prop)
	var smtObs []*Obligation
	for _, ob := range pr.obs {
		if ob.Result == "" {
			smtObs = append(smtObs, ob)
		}
	}
	knownBy := map[string]KnownFinding{}
	type knownRe struct {
		re *regexp.Regexp
		k  KnownFinding
	}
	var knownRes []knownRe
	for _, k := range known {
		// a finding recorded for another property also explains the failure of the same obligation where it merely
		// supports this property's obligations
		if k.Status == "known" {
			if k.Regex != "" {
				re, err := regexp.Compile("^(?:" + k.Regex + ")$")
				if err != nil {
					fmt.Println("ERROR known_findings.json: bad obligation_regex:", err)
					return 2
				}
				knownRes = append(knownRes, knownRe{re, k})
				continue
			}
			knownBy[k.Obligation] = k
		}
	}
	lookupKnown := func(name string) (KnownFinding, bool) {
		if k, ok := knownBy[name]; ok {
			return k, true
		}
		for _, kr := range knownRes {
			if kr.re.MatchString(name) {
				return kr.k, true
			}
		}
		return KnownFinding{}, false
	}
	// obligations recorded as known findings are expected to fail: a short time-out keeps the check fast
	var expectFail []*Obligation
	{
		var rest []*Obligation
		for _, ob := range smtObs {
			if _, ok := lookupKnown(ob.Name); ok {
				expectFail = append(expectFail, ob)
			} else {
				rest = append(rest, ob)
			}
		}
		smtObs = rest
	}
	s.solver.Solve(expectFail, false, 3, jobs)
	s.solver.Solve(smtObs, tier == "thorough", timeoutFor(tier), jobs)
	// a solver process that died (result "error") says nothing about the obligation: re-run those with little parallelism
	for round := 0; round < 2; round++ {
		var again []*Obligation
		for _, ob := range smtObs {
			if ob.Result == "error" && ob.vc != nil {
				ob.Result, ob.Raw, ob.Backend = "", "", ""
				again = append(again, ob)
			}
		}
		if len(again) == 0 {
			break
		}
		s.solver.Solve(again, tier == "thorough", timeoutFor(tier), 2)
	}
	// an obligation that ran out of time says nothing either: a few of them (a loaded machine) are re-run with a long budget
	// and little parallelism; many of them at once are a real change of the code and are reported as they are
	{
		var slow []*Obligation
		for _, ob := range smtObs {
			// "unknown" counts too: when the one solver that can decide an obligation (often cvc5) runs out of time on a loaded
			// machine while another one answers "unknown" at once, the race ends in "unknown"
			if ob.Result == "timeout" && ob.vc != nil {
				slow = append(slow, ob)
			}
		}
		if n := len(slow); n > 0 && n <= 16 {
			for _, ob := range slow {
				ob.Result, ob.Raw, ob.Backend = "", "", ""
			}
			s.solver.Solve(slow, tier == "thorough", 60, 4)
		}
		// a few "unknown" results get one more chance with a long budget and little parallelism (bounded: at most 6 obligations)
		var unk []*Obligation
		for _, ob := range smtObs {
			if ob.Result == "unknown" && ob.vc != nil && !isOpenKnownFinding(ob.Name) {
				unk = append(unk, ob)
			}
		}
		if n := len(unk); n > 0 && n <= 6 {
			for _, ob := range unk {
				ob.Result, ob.Raw, ob.Backend = "", "", ""
			}
			s.solver.Solve(unk, false, 45, 2)
		}
	}
	s.solver.SolveCanaries(pr.canaries, jobs)
	{
		schemaObs, unproved := s.schemaObligations(prop, pr.obs)
		pr.obs = append(pr.obs, schemaObs...)
		pr.unprovedSchema = unproved
	}

	violations := 0
	exit := 0
	report := func(ob *Obligation, why string) {
		violations++
		exit = 1
		path := writeReplay(s, prop, ob, why)
		suffix := ""
		if !replayHasInput(path) {
			suffix = " no-failing-input-found"
		}
		fmt.Printf("VIOLATION property=%s replay=%s obligation=%s%s\n", prop, path, ob.Name, suffix)
	}
	for _, e := range pr.errors {
		ob := &Obligation{Name: "engine/error", Kind: "error", Result: "error", Raw: e}
		report(ob, e)
	}
	present := map[string]bool{}
	sort.SliceStable(pr.obs, func(i, j int) bool { return pr.obs[i].Name < pr.obs[j].Name })
	discharged := 0
	var knownHit []string
	for _, ob := range pr.obs {
		present[ob.Name] = true
		if ob.Result == "unsat" {
			discharged++
			continue
		}
		if k, ok := lookupKnown(ob.Name); ok {
			knownLine(prop, k, ob.Name)
			knownHit = append(knownHit, ob.Name)
			continue
		}
		report(ob, "obligation not discharged: "+ob.Result)
	}
	haveNorm := map[string]int{}
	for name := range present {
		haveNorm[normLockName(name)]++
	}
	wantNorm := map[string]int{}
	for _, name := range lock.Obligations[prop] {
		wantNorm[normLockName(name)]++
	}
	for _, name := range lock.Obligations[prop] {
		// moving code into a helper, or adding a call of the same callee earlier in the function, shifts call-site ordinals and
		// block numbers: an obligation counts as still generated when there are at least as many obligations of its function,
		// kind and label as on the unchanged tree
		if !present[name] && haveNorm[normLockName(name)] < wantNorm[normLockName(name)] {
			ob := &Obligation{Name: name, Kind: "vanished", Result: "missing", Raw: "obligation is listed in obligations.lock.json (it exists and is discharged on the unchanged tree) but was not generated from the current tree: the code it speaks about is gone or no longer matches its contract"}
			report(ob, "locked obligation vanished")
		}
	}
	deadOK := map[string]bool{}
	for _, n := range lock.DeadCanaries {
		deadOK[n] = true
	}
	for _, c := range pr.canaries {
		if c.Result == "unsat" && !deadOK[c.Name] {
			ob := &Obligation{Name: c.Name, Kind: "vacuity", Result: "vacuous", Raw: "vacuity canary refuted: the hypotheses at this point are contradictory, so every obligation after it would hold vacuously"}
			report(ob, "vacuity canary")
		}
	}
	if len(pr.obs) == 0 {
		ob := &Obligation{Name: "engine/no-obligations", Kind: "vacuity", Result: "vacuous", Raw: "no obligation was generated for this property"}
		report(ob, "no obligations")
	}
	for _, ob := range pr.bounded {
		if ob.Result != "pass" {
			if k, ok := lookupKnown(ob.Name); ok {
				knownLine(prop, k, ob.Name)
				knownHit = append(knownHit, ob.Name)
				continue
			}
			report(ob, "bounded check failed")
		}
	}
	writeEvidence(s, pr, tier, seed, discharged, violations, knownHit, time.Since(start).Seconds(), evPath)
	fmt.Printf("property=%s tier=%s obligations=%d discharged=%d known-findings=%d violations=%d bounded=%d wall=%.1fs\n",
		prop, tier, len(pr.obs), discharged, len(knownHit), violations, len(pr.bounded), time.Since(start).Seconds())
	return exit
}

func writeEvidence(s *Session, pr *propRun, tier string, seed, discharged, violations int, knownHit []string, wall float64, path string) {
	type obRec struct {
		Name    string `json:"name"`
		Kind    string `json:"kind"`
		Backend string `json:"backend"`
		Result  string `json:"result"`
		Ms      int64  `json:"ms"`
		Pos     string `json:"pos,omitempty"`
	}
	var recs []obRec
	backends := map[string]int{}
	var solverMs int64
	var samples []any
	for _, ob := range pr.obs {
		recs = append(recs, obRec{ob.Name, ob.Kind, ob.Backend, ob.Result, ob.Ms, ob.Pos})
		if ob.Result == "unsat" {
			backends[ob.Backend]++
		}
		solverMs += ob.Ms
	}
	for _, ob := range pr.obs {
		if ob.vc != nil && len(samples) < 2 {
			txt := s.solver.Script(ob)
			if len(txt) > 6000 {
				txt = txt[len(txt)-6000:]
			}
			samples = append(samples, map[string]any{"obligation": ob.Name, "clause": ob.Clause, "smt_tail": txt})
		} else if ob.vc == nil && len(samples) < 4 && ob.Clause != "" {
			samples = append(samples, map[string]any{"obligation": ob.Name, "detail": ob.Clause})
		}
	}
	if len(samples) == 0 {
		samples = append(samples, "none")
	}
	var bounded []any
	for _, ob := range pr.bounded {
		bounded = append(bounded, map[string]any{"name": ob.Name, "result": ob.Result, "bound": ob.Clause, "ms": ob.Ms})
	}
	trusted := []string{
		"govc itself: the VC generator, its memory model and the SSA front end (golang.org/x/tools/go/ssa v0.29.0)",
		"SMT solvers z3 4.8.12, z3 5.1.0, cvc5 1.0 (an 'unsat' answer from any one discharges)",
		"lean 4 kernel for the axiom schemas proved in /verif/lean/Schema.lean (obligations schema/*); the reading of each accumulator predicate as the inductive closure of its introduction axioms",
	}
	if len(pr.unprovedSchema) > 0 {
		trusted = append(trusted, "axiom schemas of /verif/spec/prelude.vc used in this run and NOT mechanised (definitions of spec functions, introduction rules of accumulators, base axioms om-* of the ordered-map model, assumed facts about dependencies): "+strings.Join(pr.unprovedSchema, ", "))
	}
	var assumptions []string
	for _, n := range sortedKeys(pr.usedCt) {
		if ct := s.g.spec.Contracts[n]; ct != nil && ct.External {
			assumptions = append(assumptions, "assumed contract of external "+n+" ("+ct.Source+")")
		}
	}
	for _, n := range pr.trustedOwn {
		assumptions = append(assumptions, "contract of package-main function "+n+" is used but its body is NOT verified yet (marked trusted)")
	}
	for _, n := range sortedKeys(pr.assumed) {
		assumptions = append(assumptions, "external "+n+" assumed total, without effect on modelled state, result unconstrained")
	}
	for _, e := range pr.explicit {
		assumptions = append(assumptions, "explicit assumption (assume_after) "+e)
	}
	// trusted postconditions of own functions (assumed at call sites, never proved)
	for _, n := range sortedKeys(pr.usedCt) {
		if ct := s.g.spec.Contracts[n]; ct != nil && !ct.External {
			for _, c := range ct.TrustedEns {
				assumptions = append(assumptions, "trusted postcondition of package-main function "+n+" (assumed at its call sites, NOT proved): "+c.Expr+" ("+c.Line+")")
			}
		}
	}
	// preconditions of functions under contract that no call site in package main establishes (function literals handed
	// to a library, cobra Run closures, exported entry points that only tests call): assumed at entry
	for _, n := range pr.functions {
		ct := s.g.spec.Contracts[n]
		if ct == nil || len(ct.Requires) == 0 || s.hasStaticCaller(n) {
			continue
		}
		for _, c := range ct.Requires {
			assumptions = append(assumptions, "precondition of "+n+" assumed at entry (no call site in package main establishes it): "+c.Label+": "+c.Expr+" ("+c.Line+")")
		}
	}
	assumptions = append(assumptions, propAssumptions[pr.prop]...)
	assumptions = append(assumptions,
		"partial correctness only: termination and stack depth are not proved",
		"integers are mathematical unless the contract says 'arith' (then every + - * carries a 64-bit range obligation)",
		"string contents are abstract: only length, bytes of literals, equality and named spec functions are known",
	)
	ev := map[string]any{
		"property_id": pr.prop,
		"tier":        tier,
		"seed":        seed,
		"level":       "proof",
		"coverage": map[string]any{
			// obligations that are recorded known findings are NOT part of the proof claim (the property does not
			// hold there); they are counted separately so that discharged == obligations means "everything claimed is proved"
			"obligations":              len(pr.obs) - len(knownHitSMT(pr, knownHit)),
			"obligations_generated":    len(pr.obs),
			"known_finding_obligations": len(knownHitSMT(pr, knownHit)),
			"discharged":               discharged,
			"checker_cmd":              fmt.Sprintf("/verif/check %s --tier %s", pr.prop, tier),
			"trusted_base":             trusted,
			"functions_under_contract": pr.functions,
			"per_obligation":           recs,
			"discharged_by_backend":    backends,
			"solver_ms_total":          solverMs,
			"known_findings_hit":       knownHit,
			"vacuity_canaries":         len(pr.canaries),
			"bounded_standins":         bounded,
			"samples":                  samples,
			"contracts_file":           contractsFile(),
			"load_ms":                  s.loadMs,
		},
		"assumptions": assumptions,
		"wall_s":      wall,
		"violations":  violations,
	}
	b, _ := json.MarshalIndent(ev, "", " ")
	os.MkdirAll(filepath.Dir(path), 0o755)
	os.WriteFile(path, b, 0o644)
}

// propAssumptions: the assumption-register entries (DESIGN.md section 4.5) each property relies on.
var propAssumptions = func() map[string][]string {
	const (
		own   = "OWN (assumed, not proved): a container is not accessed through an old name after it was handed to a walker, and array cells written in one loop iteration are not touched by later iterations' callees; this makes the atoms RelQ / RelA / RelS / RelC / RelN / Rendered / MapText / Parsed time-independent and carries per-iteration clauses to 'for all elements'"
		tree  = "A-TREE (assumed): JSON trees and operator tables are acyclic (hgtM(child) < hgtM(parent)); a parsed tree holds no reference to an operator table (parseValue allocates every node: its fresh-map postcondition is proved)"
		heap  = "HEAP-CLOSED (assumed at function entry): references stored in the heap refer to existing cells; VAL-INV: an interface value never holds a typed-nil map pointer (obligation at every MakeInterface of a map pointer, assumed at every type test)"
		om    = "A-OM (assumed contract of github.com/elliotchance/orderedmap/v3): Set appends or overwrites in place, Get, Front/Next iterate in insertion order; thorough tier runs a bounded differential of the model against the library"
		js    = "A-JSON (assumed): Decoder.Token/More tokenise as documented (UseNumber => json.Number); json.Marshal of a scalar is its compact one-line JSON text; 0 round-trips"
		lem   = "bridging lemmas L-shape / L-clean / L-ni / L-fix (one-level relations => the statement over whole trees) are proved in Lean over a tree model of JSON values (lean/Bridge.lean, obligations bridge/*, structural induction); NOT mechanised: that the Lean definitions relV / relM / relL / leafRel / redV mirror the prelude's defining axioms elemrelq-def / elemrela-def / keyokq-def / qacc-* / the exact-leaf-function postcondition (read off by hand), and that the SMT leaf lemmas are the hypotheses LeafKind / LeafClean / LeafClass / LeafIdem used there; the pipeline-stage relation ElemRelP has more cases (namespaces, sub-pipelines, operator arrays) of the same form and is covered by analogy only"
		det   = "A-DET: getOp is a function of key-path content and search flag (trusted postcondition; supported by the frame back end)"
		scan  = "A-SCAN / A-FMT / A-BUF (assumed): bufio.Scanner splits lines and reports read errors through Err; gzip damage surfaces as a read error; fmt.Fprintln returns the writer's error; a *bufio.Writer hands data to the wrapped writer at Flush"
		str   = "A-STR / A-RE (assumed): strings.Split / SplitN / Join / TrimLeft / TrimSpace / Replace / Index / LastIndex and regexp behave as their named spec functions; string contents are otherwise abstract"
		tink  = "A-TINK / A-B64 (assumed, cryptographic): AES-SIV (Tink DAEAD) is deterministic, decrypts what it encrypted and fails under another key or on altered input; base64 round-trips"
		sha   = "A-SHA (assumed): SHA-256 is a function; collision freedom of the 64 bits kept is NOT decided"
		osfs  = "A-OS / A-RM / A-COPY (assumed): ghost file system for Stat / ReadFile / WriteFile / Create / CreateTemp / Remove; io.Copy appends exactly the reader's bytes on success"
		httpA = "A-HTTP (assumed): http.Client.Do performs one request and delivers the body; what digest.Transport does with Password is the dependency's contract"
		cobra = "A-COBRA (assumed): flag cells are bound to the variables the closures read; os.Stdin.Stat"
	)
	walker := []string{own, tree, heap, om, js, lem, det}
	m := map[string][]string{}
	for _, p := range []string{"C01", "C02", "C03", "C04", "C05", "C12", "C14", "C15", "C19"} {
		m[p] = append([]string{}, walker...)
	}
	m["C15"] = append(m["C15"], str, sha)
	m["C12"] = append(m["C12"], str, sha)
	m["C02"] = append(m["C02"], tink)
	m["C06"] = []string{own, tree, heap, om, js, scan}
	m["C07"] = []string{tree, heap, om, js, str}
	m["C08"] = []string{scan, osfs}
	m["C09"] = []string{tink}
	m["C10"] = []string{tink}
	m["C11"] = []string{osfs, tink}
	m["C13"] = []string{str, sha}
	m["C16"] = []string{httpA, osfs}
	m["C17"] = []string{osfs, httpA}
	m["C18"] = []string{cobra, osfs, httpA}
	m["C20"] = []string{httpA}
	return m
}()

// hasStaticCaller: some function of package main calls fn statically (so its preconditions are call-site obligations there).
func (s *Session) hasStaticCaller(name string) bool {
	target := s.fns[name]
	if target == nil {
		return true
	}
	for _, f := range s.fns {
		if f == target && !isRecursive(f) {
			continue
		}
		for _, b := range f.Blocks {
			for _, in := range b.Instrs {
				if c, ok := in.(ssa.CallInstruction); ok {
					if c.Common().StaticCallee() == target && f != target {
						return true
					}
				}
			}
		}
	}
	return false
}

func cmdLock(jobs int) int {
	s, err := loadSession()
	if err != nil {
		fmt.Fprintln(os.Stderr, "load:", err)
		return 2
	}
	defer s.solver.Close()
	known, _ := loadKnown()
	isKnown := map[string]bool{}
	var knownRegs []*regexp.Regexp
	for _, k := range known {
		if k.Status == "known" {
			isKnown[k.Property+"|"+k.Obligation] = true
			if k.Regex != "" {
				if re, err := regexp.Compile("^(?:" + k.Regex + ")$"); err == nil {
					knownRegs = append(knownRegs, re)
				}
			}
		}
	}
	matchKnown := func(name string) bool {
		for _, re := range knownRegs {
			if re.MatchString(name) {
				return true
			}
		}
		return false
	}
	lock := &LockFile{Note: "obligations that exist and are discharged on the unchanged tree; a check fails when one of them is no longer generated. Rewritten only by 'govc lock'.", Obligations: map[string][]string{}}
	rc := 0
	dead := map[string]bool{}
	for _, p := range propsList() {
		pr := s.collect(p)
		var smtObs []*Obligation
		for _, ob := range pr.obs {
			if ob.Result == "" {
				smtObs = append(smtObs, ob)
			}
		}
		s.solver.Solve(smtObs, false, 10, jobs)
		for round := 0; round < 2; round++ {
			var again []*Obligation
			for _, ob := range smtObs {
				if ob.Result == "error" && ob.vc != nil {
					ob.Result, ob.Raw, ob.Backend = "", "", ""
					again = append(again, ob)
				}
			}
			if len(again) == 0 {
				break
			}
			s.solver.Solve(again, false, 10, 2)
		}
		s.solver.SolveCanaries(pr.canaries, jobs)
		for _, c := range pr.canaries {
			if c.Result == "unsat" && strings.Contains(c.Name, "/canary:loop") {
				// only loop-body reachability probes may be dead on the unchanged tree; entry / return probes never
				dead[c.Name] = true
			}
		}
		var names []string
		for _, ob := range pr.obs {
			if ob.Result == "unsat" {
				if lockable(ob) {
					names = append(names, ob.Name)
				}
			} else if !isKnown[p+"|"+ob.Name] && !matchKnown(ob.Name) {
				fmt.Printf("not locked (not discharged): %s %s %s\n", p, ob.Name, ob.Result)
				if ob.Result == "error" {
					r := ob.Raw
					if len(r) > 400 {
						r = r[:400]
					}
					fmt.Printf("  solver output: %q\n", r)
				}
				rc = 1
			}
		}
		sort.Strings(names)
		if len(names) > 0 {
			lock.Obligations[p] = names
		}
	}
	lock.DeadCanaries = sortedKeys(dead)
	lock.Names = s.g.allDeclaredNames()
	b, _ := json.MarshalIndent(lock, "", " ")
	if err := os.WriteFile(filepath.Join(verifDir, "obligations.lock.json"), b, 0o644); err != nil {
		fmt.Fprintln(os.Stderr, err)
		return 2
	}
	return rc
}

var reLockOrd = regexp.MustCompile(`#\d+|@b\d+|~\d+|inl:[^/]*/`)

// normLockName drops call-site ordinals, block numbers, duplicate counters and inlining prefixes from an obligation name.
func normLockName(name string) string { return reLockOrd.ReplaceAllString(name, "") }

func propsList() []string {
	var out []string
	for i := 1; i <= 20; i++ {
		out = append(out, fmt.Sprintf("C%02d", i))
	}
	return out
}

// lemmaObligations: spec-level lemmas (over the axioms only) tagged with the property.
func (s *Session) lemmaObligations(prop string) []*Obligation {
	var out []*Obligation
	for _, lm := range s.g.spec.Lemmas {
		if !hasProp(lm.Props, prop) {
			continue
		}
		vc := &FnVC{g: s.g, nameCount: map[string]int{}}
		env := &Env{g: s.g, vars: map[string]*Term{}, where: lm.Line, st: NewState()}
		for i, v := range lm.Vars {
			env.vars[v] = Const("sk_"+v, lm.Sorts[i])
		}
		body, err := env.Parse(lm.Body)
		ob := &Obligation{Name: "lemma/" + lm.Name, Fn: "lemma", Kind: "lemma", Props: lm.Props, Pos: lm.Line, Guard: True, Goal: body, Clause: lm.Body, vc: vc}
		if err != nil {
			ob.Result, ob.Raw, ob.vc = "error", err.Error(), nil
		}
		out = append(out, ob)
	}
	return out
}

// knownHitSMT: the known-finding hits that are proof obligations (bounded stand-ins are listed separately).
func knownHitSMT(pr *propRun, hits []string) []string {
	in := map[string]bool{}
	for _, ob := range pr.obs {
		in[ob.Name] = true
	}
	var out []string
	for _, h := range hits {
		if in[h] {
			out = append(out, h)
		}
	}
	return out
}

// lockable: only obligations that come from a contract clause (or a table / flow / frame fact) are locked. Implicit safety
// obligations, call-site preconditions and per-component frame obligations follow the shape of the code: a harmless
// refactor (extracting a helper, removing an index expression) renames or removes them, which is not a violation.
func lockable(ob *Obligation) bool {
	k := strings.TrimPrefix(ob.Kind, "supporting:")
	switch k {
	case "post", "inv-entry", "inv-preserve", "each-iteration", "at_call", "assert", "exit", "lemma", "table", "loop-shape", "flow":
		return !strings.HasPrefix(strings.TrimPrefix(ob.Name, ob.Fn+"/"), "frame:")
	case "frame":
		return ob.Fn == "frame" // the per-line call-tree frame facts, not the per-component frame obligations of a function
	}
	return false
}
