package main

// Dependency ("depends") clauses for C02 (back end "flow"): in the tree walkers the CONTENT of a leaf - the string, number
// or boolean obtained from an `any` value by a type assertion - may influence the run only through
//   * the leading-'$' classifier:  len(s) compared with 0,  s[0] compared with '$';
//   * being handed on whole: boxed back into an `any` and stored / returned / passed to a walker or to redactScalarValue;
//   * the named classifiers and pseudonym functions (HashName, operator-table lookups by that string, the selective-mode
//     regexp on a '$'-field reference).
// Every other use - a branch on a value derived from it, a call that receives it, a derived value (substring, length,
// concatenation, conversion) that is boxed and emitted - fails the obligation of that function, with the SSA use as the
// reason. Conservative forward analysis over the same SSA the VCs come from; all executions.

import (
	"fmt"
	"go/constant"
	"go/token"
	"go/types"
	"sort"
	"strings"

	"golang.org/x/tools/go/ssa"
)

var dependsFns = []string{"redactCommand", "redactQueryValues", "redactArrayValuesWithKey", "redactArrayValues", "redactPipelineStage",
	"isRedactableFieldPatternInArray", "isInSearchStage"}

// augmentOp is not in the list: it examines the string stored under a FieldName-class key of a search operator (a field
// path, not a literal) and does so only in selective mode (it returns the table unchanged when no regexp is configured).

// functions whose behaviour on a leaf is pinned by their own contract (the leaf may be handed to them)
var dependsLeafSinks = map[string]bool{"redactScalarValue": true, "redactString": true, "IsEmail": true, "HashName": true}

func isContentType(t types.Type) bool {
	if n, ok := t.(*types.Named); ok && n.Obj().Name() == "OperatorType" {
		return false
	}
	b, ok := t.Underlying().(*types.Basic)
	if !ok {
		return false
	}
	return b.Info()&(types.IsString|types.IsNumeric|types.IsBoolean) != 0
}

func constInt(v ssa.Value, want int64) bool {
	c, ok := v.(*ssa.Const)
	if !ok || c.Value == nil || c.Value.Kind() != constant.Int {
		return false
	}
	n, ok := constant.Int64Val(c.Value)
	return ok && n == want
}

// dependsHelpers: uncontracted functions of package main reachable from the walkers (inlined by the VC generator); they are
// analysed with the same rules, may return the content of a leaf unchanged, and their content-typed results are sources.
func (s *Session) dependsHelpers() map[*ssa.Function]bool {
	out := map[*ssa.Function]bool{}
	var visit func(fn *ssa.Function)
	visit = func(fn *ssa.Function) {
		for _, b := range fn.Blocks {
			for _, in := range b.Instrs {
				if call, ok := in.(ssa.CallInstruction); ok {
					cal := call.Common().StaticCallee()
					if cal == nil || cal.Pkg != s.g.pkg || cal.Blocks == nil || out[cal] {
						continue
					}
					if s.g.spec.Contracts[shortFnName(cal)] != nil {
						continue
					}
					out[cal] = true
					visit(cal)
				}
			}
		}
	}
	for _, n := range dependsFns {
		if fn := s.fns[n]; fn != nil {
			visit(fn)
		}
	}
	return out
}

func (s *Session) dependsUses(fn *ssa.Function, helpers map[*ssa.Function]bool) []string {
	orig := map[ssa.Value]bool{}    // the leaf content itself
	derived := map[ssa.Value]bool{} // something computed from it
	cells := map[ssa.Value]bool{}   // local array cells holding content (e.g. []string{vTyped})
	var uses []string
	seen := map[string]bool{}
	report := func(in ssa.Instruction, what string) {
		u := fmt.Sprintf("%s: %s", s.posOf(in.Pos()), what)
		if !seen[u] {
			seen[u] = true
			uses = append(uses, u)
		}
	}
	isT := func(v ssa.Value) bool { return orig[v] || derived[v] }
	for changed := true; changed; {
		changed = false
		markO := func(v ssa.Value) {
			if !orig[v] {
				orig[v] = true
				changed = true
			}
		}
		markD := func(v ssa.Value) {
			if !derived[v] {
				derived[v] = true
				changed = true
			}
		}
		for _, b := range fn.Blocks {
			for _, in := range b.Instrs {
				switch x := in.(type) {
				case *ssa.TypeAssert:
					if isContentType(x.AssertedType) && !x.CommaOk {
						markO(x)
					}
				case *ssa.Extract:
					if ta, ok := x.Tuple.(*ssa.TypeAssert); ok && x.Index == 0 && isContentType(ta.AssertedType) {
						markO(x)
					}
					if call, ok := x.Tuple.(*ssa.Call); ok && helpers[call.Call.StaticCallee()] && isContentType(x.Type()) {
						if _, isBool := x.Type().Underlying().(*types.Basic); !isBool || x.Type().Underlying().(*types.Basic).Kind() != types.Bool {
							markO(x)
						}
					}
				case *ssa.Phi:
					for _, e := range x.Edges {
						if orig[e] {
							markO(x)
						} else if derived[e] {
							markD(x)
						}
					}
				case *ssa.ChangeType:
					if orig[x.X] {
						markO(x)
					} else if derived[x.X] {
						markD(x)
					}
				case *ssa.Index:
					if isT(x.X) {
						markD(x)
					}
				case *ssa.Lookup:
					if isT(x.X) || isT(x.Index) {
						markD(x)
					}
				case *ssa.Slice:
					if isT(x.X) {
						markD(x)
					}
				case *ssa.Convert:
					if isT(x.X) {
						markD(x)
					}
				case *ssa.UnOp:
					if x.Op != token.MUL && isT(x.X) {
						markD(x)
					}
					if x.Op == token.MUL {
						if ia, ok := x.X.(*ssa.IndexAddr); ok && cells[ia.X] {
							markD(x)
						}
					}
				case *ssa.BinOp:
					if !isT(x.X) && !isT(x.Y) {
						break
					}
					// the leading-'$' classifier
					if call, ok := x.X.(*ssa.Call); ok && derived[call] && constInt(x.Y, 0) {
						if bi, ok := call.Call.Value.(*ssa.Builtin); ok && bi.Name() == "len" {
							break
						}
					}
					if idx, ok := x.X.(*ssa.Index); ok && orig[idx.X] && constInt(idx.Index, 0) && constInt(x.Y, 36) && (x.Op == token.EQL || x.Op == token.NEQ) {
						break
					}
					markD(x)
				case *ssa.Store:
					if !isT(x.Val) {
						break
					}
					if ia, ok := x.Addr.(*ssa.IndexAddr); ok {
						if al, ok := ia.X.(*ssa.Alloc); ok && orig[x.Val] {
							if !cells[al] {
								cells[al] = true
								changed = true
							}
							break
						}
					}
					report(in, "the content of a leaf is stored through "+describeAddr(x.Addr))
				case *ssa.MakeInterface:
					if derived[x.X] {
						report(in, "a value derived from the content of a leaf (substring, length, concatenation, ...) is boxed for output")
					}
					// boxing the original value: handed on whole - not tracked further
				case *ssa.If:
					if isT(x.Cond) {
						report(in, "a branch depends on the content of a leaf (other than through the leading-'$' test)")
					}
				case *ssa.MapUpdate:
					if isT(x.Key) || isT(x.Value) {
						report(in, "the content of a leaf is stored into a Go map")
					}
				case *ssa.Return:
					for _, r := range x.Results {
						if derived[r] || (orig[r] && !helpers[fn]) {
							report(in, "content of a leaf (or a value derived from it) is returned unboxed")
						}
					}
				case ssa.CallInstruction:
					c := x.Common()
					name := calleeName(c)
					if v, ok := in.(*ssa.Call); ok && helpers[c.StaticCallee()] && isContentType(v.Type()) {
						if bt, ok := v.Type().Underlying().(*types.Basic); ok && bt.Kind() != types.Bool {
							markO(v)
						}
					}
					for i, a := range c.Args {
						t := isT(a)
						if sl, ok := a.(*ssa.Slice); ok && cells[sl.X] {
							t = true
						}
						if !t {
							continue
						}
						switch {
						case name == "builtin.len":
							if v, ok := in.(ssa.Value); ok {
								markD(v)
							}
						case dependsLeafSinks[name]:
						case name == "(*orderedmap.OrderedMap).Get" && i == 1 && orig[a]:
							// operator-table lookup by a '$'-string
						case name == "getOp" && i == 0:
						case (name == "(*regexp.Regexp).MatchString" || name == "strings.TrimPrefix") && (shortFnName(fn) == "isRedactableFieldPatternInArray" || shortFnName(fn) == "augmentOp"):
							if v, ok := in.(ssa.Value); ok && name == "strings.TrimPrefix" {
								markD(v)
							}
						default:
							report(in, fmt.Sprintf("the content of a leaf is passed as argument %d of %s", i, name))
						}
					}
				}
			}
		}
	}
	sort.Strings(uses)
	return uses
}

func (s *Session) dependsObligations(prop string) []*Obligation {
	if prop != "C02" {
		return nil
	}
	var out []*Obligation
	helpers := s.dependsHelpers()
	names := append([]string{}, dependsFns...)
	for h := range helpers {
		names = append(names, shortFnName(h))
	}
	sort.Strings(names[len(dependsFns):])
	for _, n := range names {
		fn := s.fns[n]
		ob := &Obligation{Name: "depends/" + n + ":leaf-content-only-through-classifiers", Fn: n, Kind: "flow", Props: []string{"C02"}, Backend: "flow", Result: "unsat",
			Clause: "the content of a leaf influences the walker only through the leading-'$' test, by being handed on whole, or through the named classifier / pseudonym functions"}
		if fn == nil {
			ob.Result, ob.Raw = "error", "function not found"
			out = append(out, ob)
			continue
		}
		ob.Pos = s.posOf(fn.Pos())
		if uses := s.dependsUses(fn, helpers); len(uses) > 0 {
			ob.Result = "sat"
			ob.Raw = strings.Join(uses, "\n")
		}
		out = append(out, ob)
	}
	return out
}
