package main

// Error-discard sweep (back end "flow", C08): in the functions that move the log from the reader to the writer, no call that
// can fail has its error result dropped. A dropped read error looks like the end of the input, a dropped write / flush / close
// error like success - the silent truncation C08 excludes. Zero annotations; exemptions are listed here and in the clause text.

import (
	"fmt"
	"go/types"
	"sort"
	"strings"

	"golang.org/x/tools/go/ssa"
)

var errsRoots = []string{"processMongoLogStream", "ProcessMongoLogFile", "ProcessMongoLogFileFromReader"}

// callees that the per-line work goes through: a failure there drops one line by design (C07), it is not an I/O failure
var errsStop = map[string]bool{"RedactMongoLog": true, "MarshalOrdered": true, "addOneToBar": true}

// dropped on purpose: closing the INPUT side in a defer (nothing is lost when that fails)
func errsExempt(in ssa.Instruction, callee string) bool {
	if _, ok := in.(*ssa.Defer); ok && strings.HasSuffix(callee, ".Close") {
		return true
	}
	return false
}

func (s *Session) errsObligations(prop string) []*Obligation {
	if prop != "C08" {
		return nil
	}
	fns := map[*ssa.Function]bool{}
	var visit func(fn *ssa.Function)
	visit = func(fn *ssa.Function) {
		if fn == nil || fns[fn] || fn.Blocks == nil || errsStop[shortFnName(fn)] {
			return
		}
		fns[fn] = true
		for _, b := range fn.Blocks {
			for _, in := range b.Instrs {
				if call, ok := in.(ssa.CallInstruction); ok {
					if cal := call.Common().StaticCallee(); cal != nil && cal.Pkg == s.g.pkg {
						visit(cal)
					}
				}
			}
		}
		for _, an := range fn.AnonFuncs {
			visit(an)
		}
	}
	files := map[string]bool{}
	for _, n := range errsRoots {
		visit(s.fns[n])
		if fn := s.fns[n]; fn != nil {
			files[s.g.prog.Fset.Position(fn.Pos()).Filename] = true
		}
	}
	// readers / writers defined next to the stream functions are called back by the library (Scanner -> Read): every function
	// and method declared in the same source files belongs to the sweep
	for _, fn := range s.fns {
		if fn != nil && fn.Blocks != nil && files[s.g.prog.Fset.Position(fn.Pos()).Filename] {
			visit(fn)
		}
	}
	var names []string
	byName := map[string]*ssa.Function{}
	for fn := range fns {
		names = append(names, shortFnName(fn))
		byName[shortFnName(fn)] = fn
	}
	sort.Strings(names)
	var out []*Obligation
	for _, n := range names {
		fn := byName[n]
		ob := &Obligation{Name: "errors/" + n + ":no-error-result-is-dropped", Fn: n, Kind: "flow", Props: []string{"C08"}, Backend: "flow", Result: "unsat", Pos: s.posOf(fn.Pos()),
			Clause: "every call that returns an error has that result used (exempt: deferred Close of the input side; the per-line functions RedactMongoLog / MarshalOrdered / addOneToBar are outside: a bad line is skipped by design)"}
		var viol []string
		for _, b := range fn.Blocks {
			for _, in := range b.Instrs {
				call, ok := in.(ssa.CallInstruction)
				if !ok {
					continue
				}
				sig := call.Common().Signature()
				res := sig.Results()
				if res.Len() == 0 || !types.Identical(res.At(res.Len()-1).Type(), types.Universe.Lookup("error").Type()) {
					continue
				}
				callee := "?"
				if cal := call.Common().StaticCallee(); cal != nil {
					callee = cal.String()
				} else if call.Common().IsInvoke() {
					callee = "(" + call.Common().Value.Type().String() + ")." + call.Common().Method.Name()
				}
				if errsExempt(in, callee) {
					continue
				}
				used := false
				if v, ok := in.(ssa.Value); ok {
					if res.Len() == 1 {
						used = len(*v.Referrers()) > 0
					} else {
						for _, r := range *v.Referrers() {
							if ex, ok := r.(*ssa.Extract); ok && ex.Index == res.Len()-1 && len(*ex.Referrers()) > 0 {
								used = true
							}
						}
					}
				}
				if !used {
					viol = append(viol, fmt.Sprintf("%s: the error result of %s is dropped (%s)", n, callee, s.posOf(in.Pos())))
				}
			}
		}
		if len(viol) > 0 {
			ob.Result = "sat"
			ob.Raw = strings.Join(viol, "\n")
		}
		out = append(out, ob)
	}
	return out
}
