package main

// Symbolic execution of SSA instructions inside one frame.

import (
	"fmt"
	"go/token"
	"go/types"
	"strings"

	"golang.org/x/tools/go/ssa"
)

func (fr *Frame) val(v ssa.Value) *Term {
	if t, ok := fr.vals[v]; ok {
		return t
	}
	g := fr.vc.g
	switch c := v.(type) {
	case *ssa.Const:
		return g.constTerm(c)
	case *ssa.Global:
		// address of a global: only meaningful as load/store target
		n := g.autoFun("addr_"+c.Pkg.Pkg.Name()+"."+c.Name(), SInt)
		return g.withType(Const(n, SInt), c.Type())
	case *ssa.Function:
		n := g.autoFun("fn_"+shortFnName(c), SInt)
		return g.withType(Const(n, SInt), c.Type())
	case *ssa.Builtin:
		return IntLit(0)
	}
	unsupported("value %s (%T) used before definition in %s", v.Name(), v, shortFnName(fr.fn))
	return nil
}

func (fr *Frame) setVal(v ssa.Value, t *Term) {
	if t.Sort != fr.vc.g.sortOf(v.Type()) {
		panic(fmt.Sprintf("setVal %s in %s: sort %s, expected %s (type %s)", v.Name(), shortFnName(fr.fn), t.Sort, fr.vc.g.sortOf(v.Type()), v.Type()))
	}
	if len(t.Args) > 0 && len(t.String()) > 60 {
		t = fr.vc.define(fr.name(v.Name()), t)
	}
	fr.vals[v] = fr.vc.g.withType(t, v.Type())
}

func (fr *Frame) execBlock(b *ssa.BasicBlock, st *State, reach *Term) {
	alive := reach
	for _, in := range b.Instrs {
		alive = fr.execInstr(in, st, alive)
	}
	fr.out[b] = st
	fr.alive[b] = alive
	fr.checkBackEdges(b)
}

func (fr *Frame) ord(in ssa.Instruction) string {
	if fr.top {
		return fr.vc.ords[in]
	}
	return ""
}

func (fr *Frame) safety(in ssa.Instruction, kind, detail string, guard, goal *Term) {
	vc := fr.vc
	name := kind
	if detail != "" {
		name += ":" + detail
	}
	if !fr.top {
		name = fr.oblPref + name
	}
	props := vc.ct.Props
	if sp := vc.g.spec.safetyProps(vc.ct); sp != nil {
		props = sp
	}
	vc.oblige(name, kind, props, vc.pos(in.Pos()), guard, goal, "")
}

func (sp *Spec) safetyProps(ct *Contract) []string {
	return ct.SafetyProps
}

func (fr *Frame) execInstr(in ssa.Instruction, st *State, alive *Term) *Term {
	vc := fr.vc
	g := vc.g
	switch x := in.(type) {
	case *ssa.DebugRef:
	case *ssa.Phi:
		// handled at block entry
	case *ssa.Alloc:
		ref := fr.newRef(st, x.Name())
		fr.vals[x] = g.withType(ref, x.Type())
		el := x.Type().(*types.Pointer).Elem()
		if typeShort(el) == "bytes.Buffer" {
			// A-BUF: the zero value of bytes.Buffer is an empty buffer
			if _, declared := g.spec.Ghosts["bufText"]; declared {
				st.Set("g:bufText", vc.define("g_bufText", Store(st.Get(g, "g:bufText"), ref, g.strLit(""))))
			}
		}
		switch el.Underlying().(type) {
		case *types.Array, *types.Struct:
		default:
			comp := "Mem:" + string(g.sortOf(el))
			st.Set(comp, vc.define(compSym(comp), Store(st.Get(g, comp), ref, g.zero(el))))
		}
	case *ssa.BinOp:
		fr.setVal(x, fr.binopChecked(x, alive))
	case *ssa.UnOp:
		fr.execUnOp(x, st, alive)
	case *ssa.Store:
		fr.store(x.Addr, fr.val(x.Val), st, alive, x)
	case *ssa.If, *ssa.Jump:
	case *ssa.Return:
		var res []*Term
		for _, r := range x.Results {
			res = append(res, fr.val(r))
		}
		fr.rets = append(fr.rets, retRec{guard: alive, results: res, st: st.Clone()})
	case *ssa.Extract:
		tu, ok := fr.tuples[x.Tuple]
		if !ok {
			unsupported("extract from unknown tuple %s", x.Tuple.Name())
		}
		if tu[x.Index] != nil && g.sortOf(x.Type()) != SNone {
			fr.vals[x] = g.withType(tu[x.Index], x.Type())
		}
	case *ssa.MakeInterface:
		if strings.HasPrefix(typeShort(x.X.Type()), "*orderedmap.OrderedMap") && g.sortOf(x.Type()) == SVal {
			// VAL-INV: an interface value never holds a typed-nil map pointer (assumed at every type test)
			fr.safety(x, "no-typed-nil-map", fr.ord(x), alive, Not(Eq(fr.val(x.X), IntLit(0))))
		}
		fr.setVal(x, fr.makeInterface(x.X.Type(), x.Type(), fr.val(x.X), st))
	case *ssa.ChangeInterface:
		from, to := g.sortOf(x.X.Type()), g.sortOf(x.Type())
		v := fr.val(x.X)
		if from == to {
			fr.setVal(x, v)
		} else if to == SVal {
			fr.setVal(x, mk("VOther", SVal, IntLit(int64(g.typeID(x.X.Type()))), v))
		} else {
			unsupported("ChangeInterface %s -> %s", x.X.Type(), x.Type())
		}
	case *ssa.ChangeType:
		fr.setVal(x, fr.val(x.X))
	case *ssa.Convert:
		fr.execConvert(x, st)
	case *ssa.TypeAssert:
		fr.execTypeAssert(x, alive, st)
	case *ssa.FieldAddr:
		base := fr.val(x.X)
		if _, nested := x.X.(*ssa.FieldAddr); !nested {
			fr.safety(x, "nil-deref", fr.ordOf(x, "field:"+fieldName(x)), alive, Not(Eq(base, IntLit(0))))
		}
		stt := x.X.Type().Underlying().(*types.Pointer).Elem()
		ft := stt.Underlying().(*types.Struct).Field(x.Field).Type()
		if _, nested := ft.Underlying().(*types.Struct); nested {
			n := g.autoFun("sub_"+typeShort(stt)+"_"+fieldName(x), SInt, SInt)
			fr.vals[x] = g.withType(App(n, SInt, base), x.Type())
		} else {
			fr.vals[x] = g.withType(base, x.Type()) // address is resolved at load/store
		}
	case *ssa.Field:
		n := g.autoFun("fld_"+typeShort(x.X.Type())+"_"+x.X.Type().Underlying().(*types.Struct).Field(x.Field).Name(), g.sortOf(x.Type()), g.sortOf(x.X.Type()))
		fr.setVal(x, App(n, g.sortOf(x.Type()), fr.val(x.X)))
	case *ssa.IndexAddr:
		fr.execIndexAddr(x, alive)
	case *ssa.Index:
		// indexing an array value
		arr := fr.val(x.X)
		idx := fr.val(x.Index)
		if arr.Sort == SStr {
			fr.safety(x, "index", fr.ord(x), alive, And(mk(">=", SBool, idx, IntLit(0)), Lt(idx, App("slen", SInt, arr))))
			fr.setVal(x, App("sbyte", SInt, arr, idx))
			break
		}
		if at, ok := x.X.Type().Underlying().(*types.Array); ok {
			fr.safety(x, "index", fr.ord(x), alive, And(mk(">=", SBool, idx, IntLit(0)), Lt(idx, IntLit(at.Len()))))
		}
		fr.setVal(x, Select(arr, idx))
	case *ssa.Lookup:
		fr.execLookup(x, st, alive)
	case *ssa.Slice:
		fr.execSlice(x, st, alive)
	case *ssa.MakeSlice:
		ref := fr.newRef(st, x.Name())
		ln := fr.val(x.Len)
		cp := fr.val(x.Cap)
		fr.safety(x, "makeslice", fr.ord(x), alive, And(mk(">=", SBool, ln, IntLit(0)), Le(ln, cp)))
		fr.setVal(x, mk("mkslice", SSlice, ref, IntLit(0), ln, cp))
	case *ssa.MakeMap:
		ref := fr.newRef(st, x.Name())
		fr.setVal(x, ref)
	case *ssa.MakeClosure:
		ref := fr.newRef(st, x.Name())
		fr.setVal(x, ref)
	case *ssa.MapUpdate:
		m := fr.val(x.Map)
		fr.safety(x, "nil-map", fr.ord(x), alive, Not(Eq(m, IntLit(0))))
		st.Set("GoMaps", vc.fresh("GoMaps", SInt))
	case *ssa.Call:
		alive = fr.execCall(x, x.Common(), st, alive, x)
	case *ssa.Defer:
		fr.defers = append(fr.defers, deferRec{guard: alive, call: x})
	case *ssa.RunDefers:
		for i := len(fr.defers) - 1; i >= 0; i-- {
			d := fr.defers[i]
			fr.runDeferred(d, st, alive)
		}
	case *ssa.Range:
		// iteration over a Go map or a string: the iterator itself carries no modelled state
	case *ssa.Next:
		// next element of a Go map / string iteration: nondeterministic (ok, key, value)
		tu := x.Type().(*types.Tuple)
		var res []*Term
		for i := 0; i < tu.Len(); i++ {
			et := tu.At(i).Type()
			if b, isBasic := et.(*types.Basic); isBasic && b.Kind() == types.Invalid {
				res = append(res, nil)
				continue
			}
			t := vc.fresh(fr.name(fmt.Sprintf("%s_n%d", x.Name(), i)), g.sortOf(et))
			t.Ty = et
			res = append(res, t)
		}
		fr.tuples[x] = res
	case *ssa.Panic:
		if !vc.ct.MayPanic {
			fr.safety(x, "panic", fr.ord(x), alive, False)
		}
		alive = False
	default:
		unsupported("instruction %T (%s) in %s", in, in, shortFnName(fr.fn))
	}
	return alive
}

func isOMElement(t types.Type) bool {
	return strings.HasPrefix(typeShort(t), "orderedmap.Element[")
}

func isOMStruct(t types.Type) bool {
	return strings.HasPrefix(typeShort(t), "orderedmap.OrderedMap[")
}

func fieldName(x *ssa.FieldAddr) string {
	return x.X.Type().Underlying().(*types.Pointer).Elem().Underlying().(*types.Struct).Field(x.Field).Name()
}

func (fr *Frame) ordOf(in ssa.Instruction, dflt string) string { return dflt }

func (fr *Frame) newRef(st *State, name string) *Term {
	vc := fr.vc
	top := st.Get(vc.g, "heapTop")
	ref := vc.define(fr.name("ref_"+name), Add(top, IntLit(1)))
	st.Set("heapTop", ref)
	return ref
}

// ---- arithmetic -----------------------------------------------------------------------------

func (fr *Frame) binop(x *ssa.BinOp, a, b *Term) *Term {
	g := fr.vc.g
	s := g.sortOf(x.X.Type())
	switch x.Op {
	case token.EQL, token.NEQ:
		var r *Term
		if s == SSlice {
			// only comparison with nil is legal for slices
			if isNilConst(x.Y) {
				r = Eq(mk("sbase", SInt, a), IntLit(0))
			} else {
				r = Eq(mk("sbase", SInt, b), IntLit(0))
			}
		} else {
			r = Eq(a, b)
		}
		if x.Op == token.NEQ {
			r = Not(r)
		}
		return r
	case token.LSS, token.LEQ, token.GTR, token.GEQ:
		if s != SInt {
			n := g.autoFun("cmp_"+x.Op.String()+"_"+string(s), SBool, s, s)
			return App(n, SBool, a, b)
		}
		op := map[token.Token]string{token.LSS: "<", token.LEQ: "<=", token.GTR: ">", token.GEQ: ">="}[x.Op]
		return mk(op, SBool, a, b)
	case token.ADD:
		if s == SStr {
			return App("sconcat", SStr, a, b)
		}
		if s == SInt {
			return Add(a, b)
		}
	case token.SUB:
		if s == SInt {
			return Sub(a, b)
		}
	case token.MUL:
		if s == SInt {
			return mk("*", SInt, a, b)
		}
	case token.AND:
		if s == SInt {
			return App("bitand", SInt, a, b)
		}
	}
	if s == SInt || s == SF64 {
		n := g.autoFun("op_"+opName(x.Op)+"_"+string(s), s, s, s)
		return App(n, s, a, b)
	}
	unsupported("binary operator %s on %s", x.Op, x.X.Type())
	return nil
}

func opName(op token.Token) string {
	return map[token.Token]string{token.QUO: "div", token.REM: "rem", token.OR: "bitor", token.XOR: "xor", token.SHL: "shl", token.SHR: "shr", token.AND_NOT: "andnot", token.ADD: "add", token.SUB: "sub", token.MUL: "mul"}[op]
}

func isNilConst(v ssa.Value) bool {
	c, ok := v.(*ssa.Const)
	return ok && c.Value == nil
}

func (fr *Frame) binopChecked(x *ssa.BinOp, alive *Term) *Term {
	a, b := fr.val(x.X), fr.val(x.Y)
	r := fr.binop(x, a, b)
	if (x.Op == token.EQL || x.Op == token.NEQ) && a.Sort == SVal && b.Sort == SVal {
		// comparing two interface values panics when both hold the same uncomparable dynamic type
		if !isComparableCtor(a) && !isComparableCtor(b) {
			fr.safety(x, "comparable", fr.ord(x), alive, Not(Or(And(tester("VArr", a), tester("VArr", b)), And(tester("VBy", a), tester("VBy", b)), And(tester("VOther", a), tester("VOther", b)))))
		}
	}
	if fr.vc.ct.Arith && fr.vc.g.sortOf(x.X.Type()) == SInt {
		switch x.Op {
		case token.ADD, token.SUB, token.MUL:
			fr.safety(x, "overflow", fr.ord(x), alive, inInt64(r))
		}
	}
	return r
}

// isComparableCtor: the term is syntactically a value of a comparable dynamic type (or nil)
func isComparableCtor(t *Term) bool {
	switch t.Op {
	case "VNil", "VStr", "VNum", "VBool", "VF64", "VInt", "VMap", "VOp":
		return true
	}
	return false
}

func inInt64(t *Term) *Term {
	return And(mk(">=", SBool, t, mk("-", SInt, &Term{Op: "9223372036854775808", Sort: SInt})), Le(t, &Term{Op: "9223372036854775807", Sort: SInt}))
}

func (fr *Frame) execUnOp(x *ssa.UnOp, st *State, alive *Term) {
	switch x.Op {
	case token.NOT:
		fr.setVal(x, Not(fr.val(x.X)))
	case token.SUB:
		fr.setVal(x, mk("-", SInt, fr.val(x.X)))
	case token.MUL:
		if fr.vc.g.sortOf(x.Type()) == SNone {
			return
		}
		fr.setVal(x, fr.load(x.X, x.Type(), st, alive, x))
		if fr.vals[x].Sort == SSlice {
			fr.vc.assume(sliceWF(fr.vals[x]))
		}
	default:
		unsupported("unary operator %s", x.Op)
	}
}

// ---- memory ----------------------------------------------------------------------------------

func (fr *Frame) load(addr ssa.Value, ty types.Type, st *State, alive *Term, in ssa.Instruction) *Term {
	g := fr.vc.g
	s := g.sortOf(ty)
	switch a := addr.(type) {
	case *ssa.Global:
		if a.Pkg == g.pkg {
			return st.Get(g, "G:"+a.Name())
		}
		// external globals are immutable constants of the environment (os.Stdout, base64.StdEncoding, ...)
		n := g.autoFun("ext_"+a.Pkg.Pkg.Name()+"."+a.Name(), s)
		return Const(n, s)
	case *ssa.FieldAddr:
		base := fr.val(a.X)
		stt := a.X.Type().Underlying().(*types.Pointer).Elem()
		if isOMElement(stt) {
			// fields of an ordered-map element: read through the abstract state of its map
			m := Select(st.Get(g, "Mem:OMap"), App("elMap", SInt, base))
			pos := App("elPos", SInt, base)
			switch fieldName(a) {
			case "Key":
				return App("omKey", SStr, m, pos)
			case "Value":
				v := fr.vc.define("elval", App("omVal", SVal, m, pos))
				fr.vc.assume(Implies(App("isTable", SBool, App("elMap", SInt, base)), And(App("tableVal", SBool, v), App("TE", SBool, App("omKey", SStr, m, pos), v)))) // entries of operator tables are table facts
				fr.vc.assume(Implies(And(Not(App("isTable", SBool, App("elMap", SInt, base))), tester("VMap", v)), Not(App("isTable", SBool, mk("mv", SInt, v)))))
				fr.vc.assume(Implies(tester("VMap", v), Lt(App("hgtM", SInt, mk("mv", SInt, v)), App("hgtM", SInt, App("elMap", SInt, base))))) // A-TREE
				return v
			}
			unsupported("load of ordered-map element field %s", fieldName(a))
		}
		if _, isStruct := ty.Underlying().(*types.Struct); isStruct {
			n := g.autoFun("ldstruct_"+typeShort(ty), SOpq, SInt)
			return App(n, SOpq, fr.val(a))
		}
		return Select(st.Get(g, g.fieldComp(stt, a.Field)), base)
	case *ssa.IndexAddr:
		arr, idx := fr.elemAddr(a)
		comp := fr.addrComps(a)[0]
		return Select(Select(st.Get(g, comp), arr), idx)
	}
	p := fr.val(addr)
	if in != nil {
		if _, isAlloc := addr.(*ssa.Alloc); !isAlloc {
			if _, isFV := addr.(*ssa.FreeVar); !isFV {
				fr.safety(in, "nil-deref", "load", alive, Not(Eq(p, IntLit(0))))
			}
		}
	}
	if isOMStruct(ty) {
		// struct copy of an ordered map: a snapshot of its abstract state
		fr.vc.assume(Implies(App("isTable", SBool, p), App("TableState", SBool, Select(st.Get(g, "Mem:OMap"), p))))
		return App("opqOfOM", SOpq, Select(st.Get(g, "Mem:OMap"), p))
	}
	switch u := ty.Underlying().(type) {
	case *types.Struct:
		n := g.autoFun("ldstruct_"+typeShort(ty), SOpq, SInt, SInt)
		// struct values are opaque snapshots identified by the address and a version stamp
		return App(n, SOpq, p, st.Get(g, "heapTop"))
	case *types.Array:
		return Select(st.Get(g, "Arr:"+string(g.sortOf(u.Elem()))), p)
	}
	return Select(st.Get(g, "Mem:"+string(s)), p)
}

func (fr *Frame) store(addr ssa.Value, v *Term, st *State, alive *Term, in ssa.Instruction) {
	vc := fr.vc
	g := vc.g
	set := func(comp string, t *Term) { st.Set(comp, vc.define(compSym(comp), t)) }
	switch a := addr.(type) {
	case *ssa.Global:
		if a.Pkg == g.pkg {
			st.Set("G:"+a.Name(), v)
			return
		}
		unsupported("store to external global %s", a.Name())
	case *ssa.FieldAddr:
		base := fr.val(a.X)
		stt := a.X.Type().Underlying().(*types.Pointer).Elem()
		if isOMElement(stt) {
			unsupported("store to a field of an ordered-map element")
		}
		if v.Sort == SOpq {
			return // whole-struct store into a nested struct field: not modelled (opaque)
		}
		comp := g.fieldComp(stt, a.Field)
		set(comp, Store(st.Get(g, comp), base, v))
		return
	case *ssa.IndexAddr:
		arr, idx := fr.elemAddr(a)
		comp := fr.addrComps(a)[0]
		h := st.Get(g, comp)
		set(comp, Store(h, arr, Store(Select(h, arr), idx, v)))
		return
	}
	p := fr.val(addr)
	if _, isAlloc := addr.(*ssa.Alloc); !isAlloc {
		if _, isFV := addr.(*ssa.FreeVar); !isFV {
			fr.safety(in, "nil-deref", "store", alive, Not(Eq(p, IntLit(0))))
		}
	}
	el := addr.Type().Underlying().(*types.Pointer).Elem()
	if isOMStruct(el) && v.Sort == SOpq {
		set("Mem:OMap", Store(st.Get(g, "Mem:OMap"), p, App("omOfOpq", SOMap, v)))
		return
	}
	switch u := el.Underlying().(type) {
	case *types.Struct:
		// storing a whole struct value: opaque, havoc its fields
		for _, c := range fr.cellComps(el) {
			st.Set(c, vc.fresh(compSym(c), g.compSort(c)))
		}
		return
	case *types.Array:
		comp := "Arr:" + string(g.sortOf(u.Elem()))
		set(comp, Store(st.Get(g, comp), p, v))
		return
	}
	comp := "Mem:" + string(g.sortOf(el))
	set(comp, Store(st.Get(g, comp), p, v))
}

// elemAddr returns (backing array ref, absolute index) of an IndexAddr.
func (fr *Frame) elemAddr(a *ssa.IndexAddr) (*Term, *Term) {
	idx := fr.val(a.Index)
	switch a.X.Type().Underlying().(type) {
	case *types.Slice:
		s := fr.val(a.X)
		return mk("sbase", SInt, s), Add(mk("soff", SInt, s), idx)
	}
	return fr.val(a.X), idx
}

func (fr *Frame) execIndexAddr(x *ssa.IndexAddr, alive *Term) {
	g := fr.vc.g
	idx := fr.val(x.Index)
	switch u := x.X.Type().Underlying().(type) {
	case *types.Slice:
		s := fr.val(x.X)
		fr.safety(x, "index", fr.ord(x), alive, And(mk(">=", SBool, idx, IntLit(0)), Lt(idx, mk("slen_", SInt, s))))
	case *types.Pointer:
		at := u.Elem().Underlying().(*types.Array)
		if _, isConst := x.Index.(*ssa.Const); !isConst {
			fr.safety(x, "index", fr.ord(x), alive, And(mk(">=", SBool, idx, IntLit(0)), Lt(idx, IntLit(at.Len()))))
		}
	}
	// the address itself is symbolic; loads/stores resolve it structurally
	fr.vals[x] = g.withType(IntLit(0), x.Type())
}

func (fr *Frame) execLookup(x *ssa.Lookup, st *State, alive *Term) {
	g := fr.vc.g
	if g.sortOf(x.X.Type()) == SStr {
		s := fr.val(x.X)
		idx := fr.val(x.Index)
		fr.safety(x, "index", fr.ord(x), alive, And(mk(">=", SBool, idx, IntLit(0)), Lt(idx, App("slen", SInt, s))))
		fr.setVal(x, App("sbyte", SInt, s, idx))
		return
	}
	// Go map lookup: opaque
	if x.CommaOk {
		mt := x.X.Type().Underlying().(*types.Map)
		fr.tuples[x] = []*Term{fr.vc.fresh("maplookup", g.sortOf(mt.Elem())), fr.vc.fresh("mapok", SBool)}
		return
	}
	fr.setVal(x, fr.vc.fresh("maplookup", g.sortOf(x.Type())))
}

func (fr *Frame) execSlice(x *ssa.Slice, st *State, alive *Term) {
	var lo, hi *Term
	if x.Low != nil {
		lo = fr.val(x.Low)
	} else {
		lo = IntLit(0)
	}
	switch u := x.X.Type().Underlying().(type) {
	case *types.Basic: // string
		s := fr.val(x.X)
		if x.High != nil {
			hi = fr.val(x.High)
		} else {
			hi = App("slen", SInt, s)
		}
		fr.safety(x, "slice", fr.ord(x), alive, And(mk(">=", SBool, lo, IntLit(0)), Le(lo, hi), Le(hi, App("slen", SInt, s))))
		fr.setVal(x, App("substr", SStr, s, lo, hi))
	case *types.Slice:
		s := fr.val(x.X)
		if x.High != nil {
			hi = fr.val(x.High)
		} else {
			hi = mk("slen_", SInt, s)
		}
		cp := mk("scap", SInt, s)
		fr.safety(x, "slice", fr.ord(x), alive, And(mk(">=", SBool, lo, IntLit(0)), Le(lo, hi), Le(hi, cp)))
		// Go: a nil slice sliced [0:0] stays nil
		fr.setVal(x, mk("mkslice", SSlice, mk("sbase", SInt, s), Add(mk("soff", SInt, s), lo), Sub(hi, lo), Sub(cp, lo)))
	case *types.Pointer:
		at := u.Elem().Underlying().(*types.Array)
		ref := fr.val(x.X)
		n := IntLit(at.Len())
		if x.High != nil {
			hi = fr.val(x.High)
		} else {
			hi = n
		}
		if x.Low != nil || x.High != nil {
			fr.safety(x, "slice", fr.ord(x), alive, And(mk(">=", SBool, lo, IntLit(0)), Le(lo, hi), Le(hi, n)))
		}
		fr.setVal(x, mk("mkslice", SSlice, ref, lo, Sub(hi, lo), Sub(n, lo)))
	default:
		unsupported("slice of %s", x.X.Type())
	}
}

// ---- interfaces -------------------------------------------------------------------------------

var namedValCtor = map[string]string{
	"json.Number": "VNum",
}

func (fr *Frame) makeInterface(from, to types.Type, v *Term, st *State) *Term {
	g := fr.vc.g
	if g.sortOf(to) != SVal {
		// non-empty interface (error, io.Writer, ...): references stay references
		if v.Sort == SInt {
			if _, isPtr := from.Underlying().(*types.Pointer); isPtr {
				fr.vc.assume(Implies(Not(Eq(v, IntLit(0))), Eq(App("dyntype", SInt, v), IntLit(int64(g.typeID(from))))))
			}
			return v
		}
		n := g.autoFun("box_"+typeShort(from), SInt, v.Sort)
		return App(n, SInt, v)
	}
	ts := typeShort(from)
	switch {
	case ts == "json.Number":
		return mk("VNum", SVal, v)
	case ts == "OperatorType" || ts == "main.OperatorType":
		return mk("VOp", SVal, v)
	case strings.HasPrefix(ts, "*orderedmap.OrderedMap"):
		return mk("VMap", SVal, v)
	case ts == "[]any" || ts == "[]interface{}":
		return mk("VArr", SVal, v)
	case ts == "[]byte" || ts == "[]uint8":
		return mk("VBy", SVal, fr.bytesOf(v, st))
	}
	if b, ok := from.(*types.Basic); ok {
		switch {
		case b.Kind() == types.String:
			return mk("VStr", SVal, v)
		case b.Kind() == types.Bool:
			return mk("VBool", SVal, v)
		case b.Kind() == types.Float64:
			return mk("VF64", SVal, v)
		case b.Kind() == types.Int:
			return mk("VInt", SVal, v)
		}
	}
	// any other dynamic type: tagged opaque
	var payload *Term
	if v.Sort == SInt {
		payload = v
	} else {
		n := g.autoFun("box_"+ts, SInt, v.Sort)
		payload = App(n, SInt, v)
	}
	return mk("VOther", SVal, IntLit(int64(g.typeID(from))), payload)
}

func (fr *Frame) bytesOf(s *Term, st *State) *Term {
	g := fr.vc.g
	return App("mkbytes", SBytes, Select(st.Get(g, "Arr:Int"), mk("sbase", SInt, s)), mk("soff", SInt, s), mk("slen_", SInt, s))
}

// typeTest returns (ok condition, extracted value) for asserting Val v to type ty.
func (fr *Frame) typeTest(v *Term, ty types.Type) (*Term, *Term) {
	g := fr.vc.g
	ts := typeShort(ty)
	s := g.sortOf(ty)
	sel := func(ctor, selName string) (*Term, *Term) {
		return tester(ctor, v), g.withType(mk(selName, s, v), ty)
	}
	switch {
	case ts == "json.Number":
		return sel("VNum", "nv")
	case ts == "OperatorType" || ts == "main.OperatorType":
		return sel("VOp", "ov")
	case strings.HasPrefix(ts, "*orderedmap.OrderedMap"):
		return sel("VMap", "mv")
	case ts == "[]any" || ts == "[]interface{}":
		ok, t := sel("VArr", "av")
		t.Elem = SVal
		fr.vc.assume(Implies(ok, sliceWF(t))) // VAL-INV: slices inside interface values are well-formed slice headers
		return ok, t
	}
	if b, ok := ty.(*types.Basic); ok {
		switch b.Kind() {
		case types.String:
			return sel("VStr", "sv")
		case types.Bool:
			return sel("VBool", "bv")
		case types.Float64:
			return sel("VF64", "fv")
		case types.Int:
			return sel("VInt", "iv")
		}
	}
	if s == SVal {
		// assertion to an empty interface type: succeeds iff non-nil
		return Not(Eq(v, Const("VNil", SVal))), v
	}
	id := IntLit(int64(g.typeID(ty)))
	okc := And(tester("VOther", v), Eq(mk("xty", SInt, v), id))
	var out *Term
	if s == SInt {
		out = mk("xv", SInt, v)
	} else {
		n := g.autoFun("unbox_"+ts, s, SInt)
		out = App(n, s, mk("xv", SInt, v))
	}
	return okc, g.withType(out, ty)
}

func (fr *Frame) execTypeAssert(x *ssa.TypeAssert, alive *Term, st *State) {
	g := fr.vc.g
	v := fr.val(x.X)
	var okc, out *Term
	if v.Sort == SVal {
		okc, out = fr.typeTest(v, x.AssertedType)
		if strings.HasPrefix(typeShort(x.AssertedType), "*orderedmap.OrderedMap") {
			fr.vc.assume(Implies(tester("VMap", v), And(Not(Eq(mk("mv", SInt, v), IntLit(0))), Le(mk("mv", SInt, v), st.Get(g, "heapTop"))))) // VAL-INV: a map reference inside a value is non-nil and refers to an existing cell
		}
	} else {
		// assertion on a non-empty interface value (e.g. err.(*net.AddrError)): by dynamic type tag
		if _, isPtr := x.AssertedType.Underlying().(*types.Pointer); isPtr && v.Sort == SInt {
			okc = And(Not(Eq(v, IntLit(0))), Eq(App("dyntype", SInt, v), IntLit(int64(g.typeID(x.AssertedType)))))
			out = g.withType(v, x.AssertedType)
		} else {
			okc = fr.vc.fresh("assertok", SBool)
			out = fr.vc.fresh("asserted", g.sortOf(x.AssertedType))
			out.Ty = x.AssertedType
		}
	}
	if x.CommaOk {
		zero := g.zero(x.AssertedType)
		val := Ite(okc, out, zero)
		val = fr.vc.define(fr.name(x.Name()+"_v"), val)
		val = g.withType(val, x.AssertedType)
		val.Elem = out.Elem
		fr.tuples[x] = []*Term{val, fr.vc.define(fr.name(x.Name()+"_ok"), okc)}
		return
	}
	fr.safety(x, "assert-type", strings.TrimPrefix(fr.ord(x), "assert-type:"), alive, okc)
	fr.setVal(x, out)
	fr.vals[x].Elem = out.Elem
}

// ---- conversions -------------------------------------------------------------------------------

func (fr *Frame) execConvert(x *ssa.Convert, st *State) {
	g := fr.vc.g
	from, to := g.sortOf(x.X.Type()), g.sortOf(x.Type())
	v := fr.val(x.X)
	switch {
	case from == to && from != SSlice:
		fr.setVal(x, v)
	case from == SStr && to == SSlice:
		// []byte(s): fresh backing array holding the bytes of s
		ref := fr.newRef(st, x.Name())
		arr := st.Get(g, "Arr:Int")
		st.Set("Arr:Int", fr.vc.define("Arr_Int", Store(arr, ref, App("strarr", ArrSort(SInt, SInt), v))))
		ln := App("slen", SInt, v)
		t := mk("mkslice", SSlice, ref, IntLit(0), ln, ln)
		fr.setVal(x, t)
	case from == SSlice && to == SStr:
		fr.setVal(x, App("bstr", SStr, fr.bytesOf(v, st)))
	case from == SInt && to == SF64:
		fr.setVal(x, App("i2f", SF64, v))
	case from == SInt && to == SStr:
		fr.setVal(x, App("runestr", SStr, v))
	default:
		unsupported("conversion %s -> %s", x.X.Type(), x.Type())
	}
}
