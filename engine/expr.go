package main

// Translation of contract expressions (Go expression syntax) into terms.

import (
	"fmt"
	"go/ast"
	"go/parser"
	"go/token"
	"go/types"
	"strconv"
	"strings"
)

type Env struct {
	g       *Gen
	vars    map[string]*Term
	st      *State
	old     *Env
	resolve func(name string) (*Term, bool)
	resolveAddr func(name string) (*Term, bool) // &name: the reference of an address-taken local
	params  map[string]bool // names in vars that are function parameters (may be shadowed by locals)
	where   string
	ctx     []string // functions whose declarations the expression may name (for renamed locals)
}

func (e *Env) child() *Env {
	n := *e
	n.vars = map[string]*Term{}
	for k, v := range e.vars {
		n.vars[k] = v
	}
	return &n
}

type exprError struct{ msg string }

func (e *exprError) Error() string { return e.msg }

func (e *Env) fail(format string, args ...any) {
	panic(&exprError{fmt.Sprintf("%s: ", e.where) + fmt.Sprintf(format, args...)})
}

// Parse translates a contract expression; errors are returned, not panicked.
func (e *Env) Parse(src string) (t *Term, err error) {
	defer func() {
		if r := recover(); r != nil {
			if ee, ok := r.(*exprError); ok {
				err = ee
				return
			}
			panic(r)
		}
	}()
	x, perr := parser.ParseExpr(src)
	if perr != nil {
		return nil, fmt.Errorf("%s: cannot parse %q: %v", e.where, src, perr)
	}
	return e.tr(x), nil
}

var valCtors = map[string][]Sort{
	"VNil": {}, "VStr": {SStr}, "VNum": {SStr}, "VBool": {SBool}, "VF64": {SF64}, "VInt": {SInt},
	"VMap": {SInt}, "VArr": {SSlice}, "VOp": {SInt}, "VBy": {SBytes}, "VOther": {SInt, SInt},
}
var valTesters = map[string]string{
	"isNil": "VNil", "isStr": "VStr", "isNum": "VNum", "isBool": "VBool", "isF64": "VF64", "isInt": "VInt",
	"isMap": "VMap", "isArr": "VArr", "isOp": "VOp", "isBy": "VBy", "isOther": "VOther",
}
var valSelectors = map[string]struct {
	sel  string
	sort Sort
}{
	"strOf": {"sv", SStr}, "numOf": {"nv", SStr}, "boolOf": {"bv", SBool}, "f64Of": {"fv", SF64}, "intOf": {"iv", SInt},
	"mapOf": {"mv", SInt}, "arrOf": {"av", SSlice}, "opOf": {"ov", SInt}, "byOf": {"yv", SBytes}, "xtyOf": {"xty", SInt}, "xvOf": {"xv", SInt},
}

func tester(ctor string, v *Term) *Term {
	return mk("(_ is "+ctor+")", SBool, v)
}

func (e *Env) tr(x ast.Expr) *Term {
	switch x := x.(type) {
	case *ast.ParenExpr:
		return e.tr(x.X)
	case *ast.BasicLit:
		switch x.Kind {
		case token.INT:
			n, err := strconv.ParseInt(x.Value, 0, 64)
			if err != nil {
				e.fail("bad int literal %s", x.Value)
			}
			return IntLit(n)
		case token.STRING:
			s, err := strconv.Unquote(x.Value)
			if err != nil {
				e.fail("bad string literal %s", x.Value)
			}
			return e.g.strLit(s)
		case token.CHAR:
			s, err := strconv.Unquote(x.Value)
			if err != nil || len(s) == 0 {
				e.fail("bad char literal %s", x.Value)
			}
			return IntLit(int64([]rune(s)[0]))
		}
		e.fail("unsupported literal %s", x.Value)
	case *ast.Ident:
		return e.ident(x.Name)
	case *ast.UnaryExpr:
		if x.Op == token.AND {
			if id, ok := x.X.(*ast.Ident); ok && e.resolveAddr != nil {
				if t, ok := e.resolveAddr(e.g.currentName(e.ctx, id.Name)); ok {
					return t
				}
			}
			e.fail("cannot take the address of %v here", x.X)
		}
		a := e.tr(x.X)
		switch x.Op {
		case token.NOT:
			e.want(a, SBool, "!")
			return Not(a)
		case token.SUB:
			e.want(a, SInt, "-")
			return mk("-", SInt, a)
		}
		e.fail("unsupported unary operator %s", x.Op)
	case *ast.StarExpr:
		p := e.tr(x.X)
		return e.deref(p)
	case *ast.BinaryExpr:
		return e.binary(x)
	case *ast.CallExpr:
		return e.call(x)
	case *ast.IndexExpr:
		a := e.tr(x.X)
		i := e.tr(x.Index)
		if a.Sort.IsArray() {
			return Select(a, i)
		}
		if a.Sort == SSlice {
			es := e.elemSort(a)
			arr := e.st.Get(e.g, "Arr:"+string(es))
			return Select(Select(arr, mk("sbase", SInt, a)), Add(mk("soff", SInt, a), i))
		}
		if a.Sort == SStr {
			return App("sbyte", SInt, a, i)
		}
		e.fail("cannot index term of sort %s", a.Sort)
	case *ast.SelectorExpr:
		// pkg-qualified external globals (os.Stdout) or field selection through a pointer
		if id, ok := x.X.(*ast.Ident); ok {
			if id.Name == "G" { // G.name: the package-level variable, even when a local of the same name shadows it
				if gv := e.g.mainGlobal(x.Sel.Name); gv != nil {
					return e.st.Get(e.g, "G:"+x.Sel.Name)
				}
				e.fail("no package-level variable %s", x.Sel.Name)
			}
			if _, bound := e.lookup(id.Name); !bound {
				if !e.g.importsPackage(id.Name) {
					e.fail("unknown identifier %q", id.Name)
				}
				name := id.Name + "." + x.Sel.Name
				return e.g.extGlobal(name)
			}
		}
		base := e.tr(x.X)
		return e.field(base, x.Sel.Name)
	}
	e.fail("unsupported expression %T", x)
	return nil
}

func (e *Env) want(t *Term, s Sort, ctx string) {
	if t.Sort != s {
		e.fail("%s: expected %s, got %s of sort %s", ctx, s, t, t.Sort)
	}
}

func (e *Env) lookup(name string) (*Term, bool) {
	name = e.g.currentName(e.ctx, name) // a local that was renamed since the contract was written
	if t, ok := e.vars[name]; ok {
		// a parameter may be shadowed by a local of the same name (e.g. `for _, stage := range ...`): the local wins
		// where a resolver for locals is available
		if e.params != nil && e.params[name] && e.resolve != nil {
			if r, ok := e.resolve(name); ok {
				return r, true
			}
		}
		return t, true
	}
	if e.resolve != nil {
		if t, ok := e.resolve(name); ok {
			return t, true
		}
	}
	if s, ok := e.g.spec.Ghosts[name]; ok {
		_ = s
		if e.st == nil {
			e.fail("ghost %s used without a state", name)
		}
		return e.st.Get(e.g, "g:"+name), true
	}
	if gv := e.g.mainGlobal(name); gv != nil {
		if e.st == nil {
			e.fail("global %s used without a state", name)
		}
		return e.st.Get(e.g, "G:"+name), true
	}
	if c, ok := e.g.spec.Consts[name]; ok {
		if c.Sort == SStr {
			return e.g.strLit(c.Str), true
		}
		return IntLit(c.Int), true
	}
	if fd, ok := e.g.spec.Funs[name]; ok && len(fd.Args) == 0 {
		return Const(name, fd.Ret), true
	}
	if c := e.g.goConst(name); c != nil {
		return c, true
	}
	return nil, false
}

func (e *Env) ident(name string) *Term {
	switch name {
	case "true":
		return True
	case "false":
		return False
	case "nil":
		return &Term{Op: "nil", Sort: "Nil"}
	case "heapTop":
		return e.st.Get(e.g, "heapTop")
	case "f64_0":
		return Const("f64_0", SF64)
	}
	if _, ok := valCtors[name]; ok && name == "VNil" {
		return Const("VNil", SVal)
	}
	if t, ok := e.lookup(name); ok {
		return t
	}
	e.fail("unknown identifier %q", name)
	return nil
}

func nilOf(s Sort) *Term {
	switch s {
	case SInt:
		return IntLit(0)
	case SVal:
		return Const("VNil", SVal)
	case SSlice:
		return Const("nilslice", SSlice)
	}
	return nil
}

func (e *Env) binary(x *ast.BinaryExpr) *Term {
	a := e.tr(x.X)
	b := e.tr(x.Y)
	switch x.Op {
	case token.LAND:
		e.want(a, SBool, "&&")
		e.want(b, SBool, "&&")
		return And(a, b)
	case token.LOR:
		e.want(a, SBool, "||")
		e.want(b, SBool, "||")
		return Or(a, b)
	case token.EQL, token.NEQ:
		var r *Term
		if a.Sort == "Nil" && b.Sort == "Nil" {
			r = True
		} else if a.Sort == "Nil" {
			r = e.eqNil(b)
		} else if b.Sort == "Nil" {
			r = e.eqNil(a)
		} else {
			if a.Sort != b.Sort {
				e.fail("comparison of different sorts: %s:%s and %s:%s", a, a.Sort, b, b.Sort)
			}
			r = Eq(a, b)
		}
		if x.Op == token.NEQ {
			return Not(r)
		}
		return r
	case token.LSS, token.LEQ, token.GTR, token.GEQ:
		e.want(a, SInt, x.Op.String())
		e.want(b, SInt, x.Op.String())
		op := map[token.Token]string{token.LSS: "<", token.LEQ: "<=", token.GTR: ">", token.GEQ: ">="}[x.Op]
		return mk(op, SBool, a, b)
	case token.ADD:
		if a.Sort == SStr {
			e.want(b, SStr, "+")
			return App("sconcat", SStr, a, b)
		}
		e.want(a, SInt, "+")
		e.want(b, SInt, "+")
		return Add(a, b)
	case token.SUB:
		e.want(a, SInt, "-")
		e.want(b, SInt, "-")
		return Sub(a, b)
	case token.MUL:
		e.want(a, SInt, "*")
		e.want(b, SInt, "*")
		return mk("*", SInt, a, b)
	}
	e.fail("unsupported binary operator %s", x.Op)
	return nil
}

func (e *Env) eqNil(t *Term) *Term {
	switch t.Sort {
	case SInt:
		return Eq(t, IntLit(0))
	case SVal:
		return Eq(t, Const("VNil", SVal))
	case SSlice:
		return Eq(mk("sbase", SInt, t), IntLit(0))
	}
	e.fail("cannot compare %s of sort %s with nil", t, t.Sort)
	return nil
}

func (e *Env) elemSort(a *Term) Sort {
	if a.Elem != "" {
		return a.Elem
	}
	if a.Ty != nil {
		if sl, ok := a.Ty.Underlying().(*types.Slice); ok {
			return e.g.sortOf(sl.Elem())
		}
	}
	e.fail("element sort of slice term %s unknown (use elemsS/elemsV helpers)", a)
	return SNone
}

func (e *Env) deref(p *Term) *Term {
	if p.Sort != SInt {
		e.fail("cannot dereference %s of sort %s", p, p.Sort)
	}
	if p.Ty == nil {
		e.fail("cannot dereference %s: pointer type unknown", p)
	}
	pt, ok := p.Ty.Underlying().(*types.Pointer)
	if !ok {
		e.fail("cannot dereference non-pointer %s", p)
	}
	es := e.g.sortOf(pt.Elem())
	t := Select(e.st.Get(e.g, "Mem:"+string(es)), p)
	t = e.g.withType(t, pt.Elem())
	return t
}

func (e *Env) field(base *Term, name string) *Term {
	if base.Ty == nil {
		e.fail("field %s of untyped term %s", name, base)
	}
	ty := base.Ty
	if pt, ok := ty.Underlying().(*types.Pointer); ok {
		ty = pt.Elem()
	}
	st, ok := ty.Underlying().(*types.Struct)
	if !ok {
		e.fail("field %s of non-struct %s", name, ty)
	}
	for i := 0; i < st.NumFields(); i++ {
		if st.Field(i).Name() == name {
			if _, nested := st.Field(i).Type().Underlying().(*types.Struct); nested {
				// address of a nested struct value: same encoding as the engine's FieldAddr
				n := e.g.autoFun("sub_"+typeShort(ty)+"_"+name, SInt, SInt)
				return e.g.withType(App(n, SInt, base), types.NewPointer(st.Field(i).Type()))
			}
			comp := e.g.fieldComp(ty, i)
			t := Select(e.st.Get(e.g, comp), base)
			return e.g.withType(t, st.Field(i).Type())
		}
	}
	e.fail("no field %s in %s", name, ty)
	return nil
}

func (e *Env) call(x *ast.CallExpr) *Term {
	fn, ok := x.Fun.(*ast.Ident)
	if !ok {
		e.fail("unsupported call target")
	}
	name := fn.Name
	switch name {
	case "old":
		if e.old == nil {
			e.fail("old() not available here")
		}
		// old(e): the state components are those of the entry state; local names keep their current meaning
		oe := *e.old
		if e.old != e {
			oe.vars = map[string]*Term{}
			for k, v := range e.vars {
				oe.vars[k] = v
			}
			for k, v := range e.old.vars {
				oe.vars[k] = v
			}
			oe.resolve = e.resolve
			oe.resolveAddr = e.resolveAddr
		}
		oe.where = e.where
		return oe.tr(x.Args[0])
	case "implies":
		return Implies(e.trS(x.Args[0], SBool), e.trS(x.Args[1], SBool))
	case "iff":
		return Eq(e.trS(x.Args[0], SBool), e.trS(x.Args[1], SBool))
	case "ite":
		return Ite(e.trS(x.Args[0], SBool), e.tr(x.Args[1]), e.tr(x.Args[2]))
	case "len":
		a := e.tr(x.Args[0])
		switch a.Sort {
		case SSlice:
			return mk("slen_", SInt, a)
		case SStr:
			return App("slen", SInt, a)
		}
		e.fail("len of sort %s", a.Sort)
	case "cap":
		a := e.tr(x.Args[0])
		e.want(a, SSlice, "cap")
		return mk("scap", SInt, a)
	case "store":
		arr := e.tr(x.Args[0])
		return Store(arr, e.tr(x.Args[1]), e.tr(x.Args[2]))
	case "elems":
		// backing-array view of a slice: elems(s) is the (Array Int E) of its base
		a := e.tr(x.Args[0])
		es := e.elemSort(a)
		return Select(e.st.Get(e.g, "Arr:"+string(es)), mk("sbase", SInt, a))
	case "selems", "velems", "ielems":
		a := e.trS(x.Args[0], SSlice)
		es := map[string]Sort{"selems": SStr, "velems": SVal, "ielems": SInt}[name]
		return Select(e.st.Get(e.g, "Arr:"+string(es)), mk("sbase", SInt, a))
	case "base":
		return mk("sbase", SInt, e.trS(x.Args[0], SSlice))
	case "off":
		return mk("soff", SInt, e.trS(x.Args[0], SSlice))
	case "mkslice":
		return mk("mkslice", SSlice, e.tr(x.Args[0]), e.tr(x.Args[1]), e.tr(x.Args[2]), e.tr(x.Args[3]))
	case "field":
		// field(ref, "pkg.Type", "Field"): a struct field read through a reference of any static type
		ref := e.trS(x.Args[0], SInt)
		tn := e.strArg(x.Args[1])
		fnm := e.strArg(x.Args[2])
		ty := e.g.lookupType(tn)
		if ty == nil {
			e.fail("field(): unknown type %s", tn)
		}
		ref = e.g.withType(ref, types.NewPointer(ty))
		return e.field(ref, fnm)
	case "fnval":
		// fnval("f$1"): the function value of a package-level function or function literal (same constant the VC generator uses)
		return Const(e.g.autoFun("fn_"+e.strArg(x.Args[0]), SInt), SInt)
	case "typeid":
		tn := e.strArg(x.Args[0])
		ptr := strings.HasPrefix(tn, "*")
		ty := e.g.lookupType(strings.TrimPrefix(tn, "*"))
		if ty == nil {
			e.fail("typeid(): unknown type %s", tn)
		}
		if ptr {
			ty = types.NewPointer(ty)
		}
		return IntLit(int64(e.g.typeID(ty)))
	case "unchangedBelow":
		// unchangedBelow("Arr:Str"): every cell of the heap array that existed at function entry keeps its value
		comp := e.strArg(x.Args[0])
		if e.old == nil {
			e.fail("unchangedBelow needs an entry state")
		}
		cur := e.st.Get(e.g, comp)
		was := e.old.st.Get(e.g, comp)
		r := Const("?r", SInt)
		return Forall([]*Term{r}, Implies(Le(r, e.old.st.Get(e.g, "heapTop")), Eq(Select(cur, r), Select(was, r))), Select(cur, r))
	case "om":
		// om(m): current abstract state of the ordered map behind reference m
		return Select(e.st.Get(e.g, "Mem:OMap"), e.trS(x.Args[0], SInt))
	case "comp":
		// comp("Mem:OMap"): the current term of a whole state component
		return e.st.Get(e.g, e.strArg(x.Args[0]))
	case "unchangedBelowExcept":
		// like unchangedBelow, but the cell at the given reference may change
		comp := e.strArg(x.Args[0])
		if e.old == nil {
			e.fail("unchangedBelowExcept needs an entry state")
		}
		cur := e.st.Get(e.g, comp)
		was := e.old.st.Get(e.g, comp)
		r := Const("?r", SInt)
		conds := []*Term{Le(r, e.old.st.Get(e.g, "heapTop"))}
		for _, a := range x.Args[1:] {
			conds = append(conds, Not(Eq(r, e.trS(a, SInt))))
		}
		return Forall([]*Term{r}, Implies(And(conds...), Eq(Select(cur, r), Select(was, r))), Select(cur, r))
	case "unchangedOutside":
		// unchangedOutside("Arr:Str", base, lo, hi): the cells of backing array `base` outside [lo, hi) keep their entry values
		comp := e.strArg(x.Args[0])
		if e.old == nil {
			e.fail("unchangedOutside needs an entry state")
		}
		b := e.trS(x.Args[1], SInt)
		lo := e.trS(x.Args[2], SInt)
		hi := e.trS(x.Args[3], SInt)
		cur := Select(e.st.Get(e.g, comp), b)
		was := Select(e.old.st.Get(e.g, comp), b)
		j := Const("?j", SInt)
		return Forall([]*Term{j}, Implies(Or(Lt(j, lo), mk(">=", SBool, j, hi)), Eq(Select(cur, j), Select(was, j))), Select(cur, j))
	case "distinct":
		var args []*Term
		for _, a := range x.Args {
			args = append(args, e.tr(a))
		}
		return mk("distinct", SBool, args...)
	}
	if sorts, ok := valCtors[name]; ok {
		if len(sorts) != len(x.Args) {
			e.fail("%s expects %d args", name, len(sorts))
		}
		var args []*Term
		for i, a := range x.Args {
			args = append(args, e.trS(a, sorts[i]))
		}
		return mk(name, SVal, args...)
	}
	if ctor, ok := valTesters[name]; ok {
		return tester(ctor, e.trS(x.Args[0], SVal))
	}
	if sel, ok := valSelectors[name]; ok {
		return mk(sel.sel, sel.sort, e.trS(x.Args[0], SVal))
	}
	fd, ok := e.g.spec.Funs[name]
	if !ok {
		fd, ok = builtinFuns[name]
	}
	if ok {
		if len(fd.Args) != len(x.Args) {
			e.fail("%s expects %d args, got %d", name, len(fd.Args), len(x.Args))
		}
		var args []*Term
		for i, a := range x.Args {
			t := e.tr(a)
			if t.Sort == "Nil" {
				t = nilOf(fd.Args[i])
			}
			if t == nil || t.Sort != fd.Args[i] {
				e.fail("%s: argument %d has sort %s, want %s", name, i, t.Sort, fd.Args[i])
			}
			args = append(args, t)
		}
		return App(name, fd.Ret, args...)
	}
	e.fail("unknown spec function %q", name)
	return nil
}

func (e *Env) strArg(x ast.Expr) string {
	bl, ok := x.(*ast.BasicLit)
	if !ok || bl.Kind != token.STRING {
		e.fail("expected a string literal")
	}
	s, _ := strconv.Unquote(bl.Value)
	return s
}

func (e *Env) trS(x ast.Expr, s Sort) *Term {
	t := e.tr(x)
	if t.Sort == "Nil" {
		if n := nilOf(s); n != nil {
			return n
		}
	}
	if t.Sort != s {
		e.fail("expected sort %s, got %s of sort %s", s, t, t.Sort)
	}
	return t
}

var builtinFuns = map[string]*FunDecl{
	"slen":    {Name: "slen", Args: []Sort{SStr}, Ret: SInt},
	"sbyte":   {Name: "sbyte", Args: []Sort{SStr, SInt}, Ret: SInt},
	"sconcat": {Name: "sconcat", Args: []Sort{SStr, SStr}, Ret: SStr},
	"substr":  {Name: "substr", Args: []Sort{SStr, SInt, SInt}, Ret: SStr},
	"strarr":  {Name: "strarr", Args: []Sort{SStr}, Ret: ArrSort(SInt, SInt)},
	"mkbytes": {Name: "mkbytes", Args: []Sort{ArrSort(SInt, SInt), SInt, SInt}, Ret: SBytes},
	"bstr":    {Name: "bstr", Args: []Sort{SBytes}, Ret: SStr},
	"bitand":  {Name: "bitand", Args: []Sort{SInt, SInt}, Ret: SInt},
	"dyntype": {Name: "dyntype", Args: []Sort{SInt}, Ret: SInt},
	"runestr": {Name: "runestr", Args: []Sort{SInt}, Ret: SStr},
}

// smtName sanitises a Go-ish name for use as an SMT symbol.
func smtName(s string) string {
	r := strings.NewReplacer(" ", "_", "(", "_", ")", "_", "*", "p", "/", "_", "[", "_", "]", "_", ",", "_", "{", "_", "}", "_", ":", "_", ";", "_", "\"", "_", "#", "_", "$", "S", "|", "_", "\\", "_")
	return r.Replace(s)
}
