package main

// Obligations that are not SMT-backed: table facts, ground constant facts, flow (dependency / secrecy) clauses,
// frame clauses and labelled bounded stand-ins.

func (s *Session) extraObligations(prop string) ([]*Obligation, error) {
	var out []*Obligation
	switch prop {
	case "C01", "C02", "C03", "C04", "C05", "C07", "C12", "C19":
		out = append(out, s.tableObligations(prop)...)
	}
	out = append(out, s.frameObligations(prop)...)
	if prop == "C13" {
		for _, ob := range s.frameObligations("C06") {
			if hasProp(ob.Props, "C13") {
				out = append(out, ob)
			}
		}
	}
	switch prop {
	case "C20":
		out = append(out, s.c20Obligations()...)
	case "C16":
		for _, ob := range s.c20Obligations() {
			if hasProp(ob.Props, "C16") {
				out = append(out, ob)
			}
		}
	}
	return out, nil
}
