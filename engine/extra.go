package main

// Obligations that are not SMT-backed: table facts, ground constant facts, flow (dependency / secrecy) clauses,
// frame clauses and labelled bounded stand-ins.

func (s *Session) extraObligations(prop string) ([]*Obligation, error) { return nil, nil }
