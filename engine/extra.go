package main

import (
	"encoding/json"
	"fmt"
	"strings"
)

func jsonUnmarshal(raw string, v any) error { return json.Unmarshal([]byte(raw), v) }

// Obligations that are not SMT-backed: table facts, ground constant facts, flow (dependency / secrecy) clauses,
// frame clauses and labelled bounded stand-ins.

func (s *Session) extraObligations(prop string) ([]*Obligation, error) {
	var out []*Obligation
	switch prop {
	case "C01", "C02", "C03", "C04", "C05", "C07", "C12", "C14", "C15", "C19":
		out = append(out, s.tableObligations(prop)...)
	}
	out = append(out, s.frameObligations(prop)...)
	out = append(out, s.dependsObligations(prop)...)
	out = append(out, s.ownObligations(prop)...)
	out = append(out, s.bridgeObligations(prop)...)
	out = append(out, s.errsObligations(prop)...)
	if prop == "C13" {
		for _, ob := range s.frameObligations("C06") {
			if hasProp(ob.Props, "C13") {
				out = append(out, ob)
			}
		}
	}
	if currentTier == "thorough" {
		out = append(out, s.corpusObligation(prop))
		switch prop {
		case "C01", "C03", "C04", "C07", "C12":
			out = append(out, s.omDiffObligation(prop))
		}
		switch prop {
		case "C03", "C04", "C05", "C19":
			out = append(out, s.jsonDiffObligation(prop))
		}
	}
	if prop == "C15" || prop == "C13" {
		// C13: the pseudonyms written into attr.planSummary have the stated form for every replacement text
		for _, ob := range s.planSummaryObligations() {
			ob.Props = []string{prop}
			out = append(out, ob)
		}
	}
	switch prop {
	case "C20":
		out = append(out, s.c20Obligations()...)
	case "C16":
		for _, ob := range s.c20Obligations() {
			if hasProp(ob.Props, "C16") {
				out = append(out, ob)
			}
		}
	}
	return out, nil
}

// planSummaryObligations: labelled BOUNDED stand-in for the free-text rewriting of attr.planSummary (C15).
func (s *Session) planSummaryObligations() []*Obligation {
	_, raw, err := runHarnessRaw(map[string]any{"mode": "plansummary"})
	mk := func(name, bound string) *Obligation {
		return &Obligation{Name: name, Fn: "redactFieldNamesFromPlanSummary", Kind: "bounded", Props: []string{"C15"}, Backend: "bounded-enumeration", Clause: bound}
	}
	plain := mk("bounded:redactFieldNamesFromPlanSummary/plain-names", "all plan summaries with 1..3 index keys (one or two IXSCAN stages) over the names zip, qty, uuu.www, _id, town, 9wk, plus COLLSCAN / IDHACK / EOF / empty: output equals the token-wise specification (every dotted component replaced by its pseudonym, nothing else touched)")
	adv := mk("bounded:redactFieldNamesFromPlanSummary/names-that-are-substrings", "the same enumeration over the names a, b, IX, e1, a.b (names that are substrings of each other, of IXSCAN, or hex digits of a pseudonym), and over a, IX, a.b, zip under the replacement texts US$, $1, ${1}x, %s, a\\b, <r e d>")
	if err != nil {
		plain.Result, plain.Raw = "error", err.Error()
		adv.Result, adv.Raw = "error", err.Error()
		return []*Obligation{plain, adv}
	}
	var reply struct {
		Data struct {
			PlainTried int      `json:"plain_tried"`
			PlainFail  int      `json:"plain_failures"`
			PlainEx    []string `json:"plain_examples"`
			AdvTried   int      `json:"adversarial_tried"`
			AdvFail    int      `json:"adversarial_failures"`
			AdvEx      []string `json:"adversarial_examples"`
		} `json:"data"`
	}
	if e := jsonUnmarshal(raw, &reply); e != nil {
		plain.Result, plain.Raw = "error", e.Error()
		adv.Result, adv.Raw = "error", e.Error()
		return []*Obligation{plain, adv}
	}
	plain.Clause += fmt.Sprintf(" [%d inputs]", reply.Data.PlainTried)
	adv.Clause += fmt.Sprintf(" [%d inputs]", reply.Data.AdvTried)
	plain.Result, adv.Result = "pass", "pass"
	if reply.Data.PlainFail > 0 || reply.Data.PlainTried == 0 {
		plain.Result = "fail"
		plain.Raw = fmt.Sprintf("%d of %d inputs deviate, e.g. %s", reply.Data.PlainFail, reply.Data.PlainTried, strings.Join(reply.Data.PlainEx, " | "))
	}
	if reply.Data.AdvFail > 0 || reply.Data.AdvTried == 0 {
		adv.Result = "fail"
		adv.Raw = fmt.Sprintf("%d of %d inputs deviate, e.g. %s", reply.Data.AdvFail, reply.Data.AdvTried, strings.Join(reply.Data.AdvEx, " | "))
	}
	return []*Obligation{plain, adv}
}

var currentTier = "quick"

// omDiffObligation: thorough tier only, labelled BOUNDED: the assumed ordered-map model against the real library.
func (s *Session) omDiffObligation(prop string) *Obligation {
	ob := &Obligation{Name: "bounded:A-OM/model-vs-library", Fn: "orderedmap", Kind: "bounded", Props: []string{prop}, Backend: "bounded-differential",
		Clause: "3000 random operation sequences (up to 14 steps, 5 keys; seed VERIF_SEED) on github.com/elliotchance/orderedmap/v3 against the list-of-pairs model assumed in externals.vc"}
	_, raw, err := runHarnessRaw(map[string]any{"mode": "omdiff"})
	if err != nil {
		ob.Result, ob.Raw = "error", err.Error()
		return ob
	}
	var reply struct {
		Data struct {
			Runs     int      `json:"runs"`
			Steps    int      `json:"steps"`
			Failures []string `json:"failures"`
		} `json:"data"`
	}
	if e := jsonUnmarshal(raw, &reply); e != nil {
		ob.Result, ob.Raw = "error", e.Error()
		return ob
	}
	ob.Clause += fmt.Sprintf(" [%d sequences, %d steps]", reply.Data.Runs, reply.Data.Steps)
	ob.Result = "pass"
	if len(reply.Data.Failures) > 0 || reply.Data.Steps == 0 {
		ob.Result = "fail"
		ob.Raw = "the library disagrees with the assumed model (the proofs that use A-OM rest on a wrong contract): " + strings.Join(reply.Data.Failures, " | ")
	}
	return ob
}

// jsonDiffObligation: thorough tier only, labelled BOUNDED: the assumed facts about encoding/json against the real library.
func (s *Session) jsonDiffObligation(prop string) *Obligation {
	ob := &Obligation{Name: "bounded:A-JSON/scalars-and-round-trip", Fn: "encoding/json", Kind: "bounded", Props: []string{prop}, Backend: "bounded-differential",
		Clause: "4000 random scalars (strings over an alphabet with quotes, backslashes, control characters, U+2028, non-BMP runes; number literals of any magnitude / notation; booleans; null) seed VERIF_SEED: json.Marshal is one line, decodes back (UseNumber) to the same value, keeps number literals verbatim; UnmarshalOrdered -> MarshalOrdered is the identity on a compact document holding the scalar"}
	_, raw, err := runHarnessRaw(map[string]any{"mode": "jsondiff"})
	if err != nil {
		ob.Result, ob.Raw = "error", err.Error()
		return ob
	}
	var reply struct {
		Data struct {
			Tried    int      `json:"tried"`
			Failures []string `json:"failures"`
		} `json:"data"`
	}
	if e := jsonUnmarshal(raw, &reply); e != nil {
		ob.Result, ob.Raw = "error", e.Error()
		return ob
	}
	ob.Clause += fmt.Sprintf(" [%d scalars]", reply.Data.Tried)
	ob.Result = "pass"
	if len(reply.Data.Failures) > 0 || reply.Data.Tried == 0 {
		ob.Result = "fail"
		ob.Raw = strings.Join(reply.Data.Failures, " | ")
	}
	return ob
}

// corpusObligation: thorough tier only, labelled BOUNDED: the property's witness corpus (the inputs the replay harness
// would search when an obligation fails) is run on the real code of the current tree and judged by the property-level
// oracle; no input may violate the property. Independent of the contracts: it can contradict a proof.
func (s *Session) corpusObligation(prop string) *Obligation {
	ob := &Obligation{Name: "bounded:corpus/" + prop, Fn: "replay-corpus", Kind: "bounded", Props: []string{prop}, Backend: "bounded-corpus",
		Clause: "every input of the witness corpus of " + prop + " (/verif/replay) is run through the real code and judged by the property-level oracle"}
	r, raw, err := runHarness(map[string]any{"mode": "search", "property": prop, "hint": ""})
	if err != nil {
		if strings.Contains(err.Error(), "no corpus for") {
			ob.Result = "pass"
			ob.Clause = "no witness corpus is defined for " + prop + " (nothing run)"
			return ob
		}
		ob.Result, ob.Raw = "error", err.Error()+"\n"+raw
		return ob
	}
	ob.Clause += fmt.Sprintf(" [%d inputs]", r.Tried)
	ob.Result = "pass"
	if r.Violated {
		ob.Result = "fail"
		b, _ := json.Marshal(r.Input)
		ob.Raw = "input " + string(b) + " violates the property on the real code: " + r.Observed
	}
	return ob
}
