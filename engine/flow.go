package main

// Flow (secrecy / dependency) clauses: a conservative forward taint analysis over the same SSA the VCs are
// generated from. Unknown instruction => tainted result; unknown callee => sink. Sound over-approximation for
// all executions; back end name in the evidence: "flow".

import (
	"fmt"
	"go/token"
	"go/types"
	"sort"
	"strings"

	"golang.org/x/tools/go/ssa"
)

type flowUse struct {
	fn   string
	pos  string
	what string
}

type flowPolicy struct {
	name string
	// isSource: values that introduce the secret in fn
	isSource func(fn *ssa.Function, v ssa.Value) bool
	// allowedCall: may the tainted value be passed as argument #argIdx of this call?
	allowedCall func(c *ssa.CallCommon, argIdx int) bool
	// allowedStore: may the tainted value be stored through this address?
	allowedStore func(addr ssa.Value) bool
	// declassify: does this instruction produce an untainted result although an operand is tainted?
	declassify func(in ssa.Instruction) bool
}

func (s *Session) posOf(p token.Pos) string {
	if !p.IsValid() {
		return ""
	}
	ps := s.g.prog.Fset.Position(p)
	f := ps.Filename
	if i := strings.LastIndex(f, "/"); i >= 0 {
		f = f[i+1:]
	}
	return fmt.Sprintf("%s:%d", f, ps.Line)
}

// runFlow analyses one function; returns the disallowed uses of the secret.
func (s *Session) runFlow(fn *ssa.Function, pol *flowPolicy) []flowUse {
	uses, _ := s.runFlowCtx(fn, pol, nil, 0)
	return uses
}

// runFlowCtx: taintedParams are parameters that hold the secret in this calling context (a helper of package main that the
// secret is handed to is analysed in that context instead of being treated as a sink; depth-limited). The second result
// says whether the function may return the secret (reported as a use only at depth 0).
func (s *Session) runFlowCtx(fn *ssa.Function, pol *flowPolicy, taintedParams map[int]bool, depth int) ([]flowUse, bool) {
	retTainted := false
	tainted := map[ssa.Value]bool{}
	cells := map[ssa.Value]bool{} // local cells (Alloc / array element addresses) holding the secret
	var uses []flowUse
	seenUse := map[string]bool{}
	report := func(in ssa.Instruction, what string) {
		u := flowUse{fn: shortFnName(fn), pos: s.posOf(in.Pos()), what: what}
		k := u.pos + "|" + what
		if !seenUse[k] {
			seenUse[k] = true
			uses = append(uses, u)
		}
	}
	rootCell := func(addr ssa.Value) ssa.Value {
		for i := 0; i < 6; i++ {
			switch a := addr.(type) {
			case *ssa.IndexAddr:
				addr = a.X
			case *ssa.FieldAddr:
				return nil // struct fields are handled by allowedStore
			case *ssa.Slice:
				addr = a.X
			default:
				return addr
			}
		}
		return addr
	}
	for changed := true; changed; {
		changed = false
		mark := func(v ssa.Value) {
			if !tainted[v] {
				tainted[v] = true
				changed = true
			}
		}
		for i, p := range fn.Params {
			if pol.isSource(fn, p) || taintedParams[i] {
				mark(p)
			}
		}
		for _, b := range fn.Blocks {
			for _, in := range b.Instrs {
				if v, ok := in.(ssa.Value); ok && pol.isSource(fn, v) {
					mark(v)
				}
				anyT := false
				var ops []*ssa.Value
				for _, op := range in.Operands(ops) {
					if *op != nil && tainted[*op] {
						anyT = true
					}
				}
				switch x := in.(type) {
				case *ssa.DebugRef:
					continue
				case *ssa.UnOp:
					if x.Op == token.MUL {
						// load: tainted if the cell holds the secret
						if r := rootCell(x.X); r != nil && cells[r] {
							mark(x)
						}
						if tainted[x.X] {
							mark(x)
						}
						continue
					}
				case *ssa.Store:
					if tainted[x.Val] {
						if _, isField := x.Addr.(*ssa.FieldAddr); isField {
							if !pol.allowedStore(x.Addr) {
								report(x, "stored into "+describeAddr(x.Addr))
							}
							continue
						}
						if g, isGlobal := x.Addr.(*ssa.Global); isGlobal {
							report(x, "stored into package variable "+g.Name())
							continue
						}
						if r := rootCell(x.Addr); r != nil {
							if _, isAlloc := r.(*ssa.Alloc); isAlloc {
								if !cells[r] {
									cells[r] = true
									changed = true
								}
								continue
							}
						}
						report(x, "stored through "+describeAddr(x.Addr))
					}
					continue
				case *ssa.If, *ssa.Jump, *ssa.Return, *ssa.RunDefers, *ssa.Panic:
					if r, ok := in.(*ssa.Return); ok {
						for _, rv := range r.Results {
							if tainted[rv] {
								if depth > 0 {
									retTainted = true
								} else {
									report(in, "returned to the caller")
								}
							}
						}
					}
					if iff, ok := in.(*ssa.If); ok && tainted[iff.Cond] {
						report(in, "decides a branch")
					}
					continue
				}
				if call, ok := in.(ssa.CallInstruction); ok {
					c := call.Common()
					args := c.Args
					for i, a := range args {
						isT := tainted[a]
						// a slice/array cell holding the secret passed as variadic operand
						if r := rootCell(a); r != nil && cells[r] {
							isT = true
						}
						if !isT {
							continue
						}
						if pol.allowedCall(c, i) {
							continue
						}
						if callee := c.StaticCallee(); callee != nil && !c.IsInvoke() && callee.Pkg == s.g.pkg && callee.Blocks != nil && depth < 4 && i < len(callee.Params) {
							// a helper of package main: follow the secret into it
							subUses, ret := s.runFlowCtx(callee, pol, map[int]bool{i: true}, depth+1)
							for _, u := range subUses {
								k := u.pos + "|" + u.what
								if !seenUse[k] {
									seenUse[k] = true
									uses = append(uses, u)
								}
							}
							if ret {
								if v, ok := in.(ssa.Value); ok {
									mark(v)
								}
							}
							continue
						}
						report(in, fmt.Sprintf("passed as argument %d of %s", i, calleeName(c)))
					}
					if c.IsInvoke() && tainted[c.Value] {
						report(in, "used as receiver of "+calleeName(c))
					}
					if mc, ok := c.Value.(*ssa.MakeClosure); ok {
						for _, bnd := range mc.Bindings {
							if tainted[bnd] || cells[bnd] {
								report(in, "captured by a closure")
							}
						}
					}
					continue
				}
				if !anyT {
					continue
				}
				if pol.declassify != nil && pol.declassify(in) {
					continue
				}
				switch x := in.(type) {
				case *ssa.MakeClosure:
					report(in, "captured by a closure")
				case *ssa.MapUpdate:
					report(in, "stored into a map")
				case *ssa.Send, *ssa.Go:
					report(in, "sent to another goroutine")
				case ssa.Value:
					mark(x)
				}
			}
		}
	}
	sort.Slice(uses, func(i, j int) bool { return uses[i].pos+uses[i].what < uses[j].pos+uses[j].what })
	return uses, retTainted
}

// storesParam: does fn (or, transitively, a helper of package main it hands the parameter to) store the parameter through
// an address the policy allows?
func (s *Session) storesParam(fn *ssa.Function, p *ssa.Parameter, pol *flowPolicy, depth int) bool {
	for _, b := range fn.Blocks {
		for _, in := range b.Instrs {
			if st, ok := in.(*ssa.Store); ok && pol.allowedStore(st.Addr) && st.Val == ssa.Value(p) {
				return true
			}
			if call, ok := in.(ssa.CallInstruction); ok && depth < 4 {
				c := call.Common()
				if callee := c.StaticCallee(); callee != nil && !c.IsInvoke() && callee.Pkg == s.g.pkg && callee.Blocks != nil {
					for i, a := range c.Args {
						if a == ssa.Value(p) && i < len(callee.Params) && s.storesParam(callee, callee.Params[i], pol, depth+1) {
							return true
						}
					}
				}
			}
		}
	}
	return false
}

func describeAddr(addr ssa.Value) string {
	switch a := addr.(type) {
	case *ssa.FieldAddr:
		st := a.X.Type().Underlying().(*types.Pointer).Elem()
		return "field " + typeShort(st) + "." + st.Underlying().(*types.Struct).Field(a.Field).Name()
	case *ssa.Global:
		return "global " + a.Name()
	case *ssa.IndexAddr:
		return "an element of " + a.X.Name()
	}
	return addr.Name()
}

// ---- C20: the Atlas private key ---------------------------------------------------------------------------

func (s *Session) c20Obligations() []*Obligation {
	holders := map[string]bool{"(*AtlasClient).getAtlasClusterInfo": true, "(*AtlasClient).downloadClusterLogsForHost": true, "(*AtlasClient).DownloadClusterLogs": true}
	pol := &flowPolicy{name: "atlas-private-key"}
	pol.isSource = func(fn *ssa.Function, v ssa.Value) bool {
		switch x := v.(type) {
		case *ssa.Parameter:
			return holders[shortFnName(fn)] && x.Name() == s.g.currentName([]string{shortFnName(fn)}, "privateKey")
		case *ssa.UnOp:
			if x.Op == token.MUL {
				if fv, ok := x.X.(*ssa.FreeVar); ok && fv.Name() == s.g.currentName([]string{"main"}, "atlasPrivateKey") {
					return true
				}
			}
		case *ssa.Call:
			if calleeName(x.Common()) == "os.Getenv" && len(x.Common().Args) == 1 {
				if c, ok := x.Common().Args[0].(*ssa.Const); ok && c.Value != nil && strings.Contains(c.Value.ExactString(), "ATLAS_PRIVATE_KEY") {
					return true
				}
			}
		}
		return false
	}
	pol.allowedCall = func(c *ssa.CallCommon, argIdx int) bool {
		name := calleeName(c)
		if !holders[name] {
			return false
		}
		fn := c.StaticCallee()
		if fn == nil {
			return false
		}
		// argument index in c.Args corresponds to fn.Params (receiver included for static method calls)
		if argIdx < len(fn.Params) && fn.Params[argIdx].Name() == s.g.currentName([]string{name}, "privateKey") {
			return true
		}
		return false
	}
	pol.allowedStore = func(addr ssa.Value) bool {
		fa, ok := addr.(*ssa.FieldAddr)
		if !ok {
			return false
		}
		st := fa.X.Type().Underlying().(*types.Pointer).Elem()
		return typeShort(st) == "digest.Transport" && st.Underlying().(*types.Struct).Field(fa.Field).Name() == "Password"
	}
	pol.declassify = func(in ssa.Instruction) bool {
		// the emptiness test: comparison with a constant string
		if bo, ok := in.(*ssa.BinOp); ok && (bo.Op == token.EQL || bo.Op == token.NEQ) {
			_, cx := bo.X.(*ssa.Const)
			_, cy := bo.Y.(*ssa.Const)
			return cx || cy
		}
		return false
	}
	var out []*Obligation
	// every function of package main is analysed: the key must not show up anywhere else either
	names := sortedKeys(s.fns)
	sourceFns := 0
	for _, n := range names {
		fn := s.fns[n]
		uses := s.runFlow(fn, pol)
		hasSource := holders[n] || n == "main$1"
		if !hasSource && len(uses) == 0 {
			continue
		}
		if hasSource {
			sourceFns++
		}
		ob := &Obligation{Name: "flow/" + n + ":private-key-confined", Fn: n, Kind: "flow", Props: []string{"C20"}, Backend: "flow", Result: "unsat",
			Clause: "the Atlas private key is used only for the emptiness test, as the privateKey argument of the Atlas client functions, and for the store into digest.Transport.Password", Pos: s.posOf(fn.Pos())}
		if len(uses) > 0 {
			ob.Result = "sat"
			var lines []string
			for _, u := range uses {
				lines = append(lines, fmt.Sprintf("%s: the private key is %s", u.pos, u.what))
			}
			ob.Raw = strings.Join(lines, "\n")
		}
		out = append(out, ob)
	}
	// the flag set itself holds the key (the flag cell is bound to it): reading flag VALUES through the flag set (Visit, Lookup,
	// GetString, Flag.Value ...) would reach the key without touching the bound variable the taint starts from
	{
		ob := &Obligation{Name: "flow/package:flag-values-are-read-only-through-their-bound-variables", Fn: "main", Kind: "flow", Props: []string{"C20"}, Backend: "flow", Result: "unsat",
			Clause: "no function of package main reads flag values through the pflag API (FlagSet.Visit / VisitAll / Lookup / Get*, Flag.Value, Value.String; usage texts print the registered defaults only): the private key is reachable only through its bound variable, which the flow clause follows"}
		var lines []string
		for _, n := range names {
			fn := s.fns[n]
			if fn == nil || fn.Blocks == nil {
				continue
			}
			for _, b := range fn.Blocks {
				for _, in := range b.Instrs {
					switch x := in.(type) {
					case ssa.CallInstruction:
						c := x.Common()
						name := ""
						if cal := c.StaticCallee(); cal != nil {
							name = cal.String()
						} else if c.IsInvoke() {
							name = c.Value.Type().String() + "." + c.Method.Name()
						}
						if !strings.Contains(name, "spf13/pflag") {
							continue
						}
						m := name[strings.LastIndex(name, ".")+1:]
						if m == "Visit" || m == "VisitAll" || m == "Lookup" || m == "ShorthandLookup" || strings.HasPrefix(m, "Get") || m == "String" {
							lines = append(lines, fmt.Sprintf("%s: %s calls %s", s.posOf(in.Pos()), n, name))
						}
					case *ssa.FieldAddr:
						if pt, ok := x.X.Type().Underlying().(*types.Pointer); ok && strings.Contains(pt.Elem().String(), "spf13/pflag.Flag") {
							if st, ok := pt.Elem().Underlying().(*types.Struct); ok {
								if f := st.Field(x.Field).Name(); f == "Value" {
									lines = append(lines, fmt.Sprintf("%s: %s reads pflag.Flag.%s", s.posOf(in.Pos()), n, f))
								}
							}
						}
					}
				}
			}
		}
		if len(lines) > 0 {
			ob.Result, ob.Raw = "sat", strings.Join(lines, "\n")
		}
		out = append(out, ob)
	}
	// structural anchors: the functions that are supposed to hold the key exist and receive it
	for _, n := range []string{"(*AtlasClient).getAtlasClusterInfo", "(*AtlasClient).downloadClusterLogsForHost", "(*AtlasClient).DownloadClusterLogs", "main$1"} {
		if s.fns[n] == nil {
			out = append(out, &Obligation{Name: "flow/" + n + ":private-key-confined", Fn: n, Kind: "flow", Props: []string{"C20"}, Backend: "flow", Result: "error", Raw: "function not found"})
		}
	}
	// the password must actually reach the digest transport in both request functions (otherwise no authentication)
	for _, n := range []string{"(*AtlasClient).getAtlasClusterInfo", "(*AtlasClient).downloadClusterLogsForHost"} {
		fn := s.fns[n]
		if fn == nil {
			continue
		}
		found := false
		for _, p := range fn.Params {
			if p.Name() == s.g.currentName([]string{n}, "privateKey") && s.storesParam(fn, p, pol, 0) {
				found = true
			}
		}
		ob := &Obligation{Name: "flow/" + n + ":password-is-the-private-key", Fn: n, Kind: "flow", Props: []string{"C20", "C16"}, Backend: "flow", Result: "unsat",
			Clause: "digest.Transport.Password is set from the privateKey parameter", Pos: s.posOf(fn.Pos())}
		if !found {
			ob.Result, ob.Raw = "sat", "no store of privateKey into digest.Transport.Password in "+n
		}
		out = append(out, ob)
	}
	return out
}
