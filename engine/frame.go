package main

// Frame of the per-line call tree (back end "frame"): which package-level variables of package main the functions
// reachable from RedactMongoLog / MarshalOrdered read and write. C06 (line-local, repeatable map), C02 (nothing
// derived from one value reaches another), C10 (determinism) rest on: the tree reads only the option globals, the
// operator tables and the compiled e-mail pattern; it writes only the write-only pseudonym side table; and that
// table is never read anywhere in the package. A cache, a counter, a "last namespace" memo or any other state
// carried from one line (or one value) to the next shows up as a read or write outside these sets.

import (
	"fmt"
	"go/token"
	"sort"
	"strings"

	"golang.org/x/tools/go/ssa"
)

var perLineRoots = []string{"RedactMongoLog", "MarshalOrdered"}

// globals the per-line tree may read
var perLineReadable = map[string]string{
	"redactedString": "option", "redactNumbers": "option", "redactBooleans": "option", "redactIPs": "option",
	"eagerRedactionPaths": "option", "shouldEncrypt": "option", "encryptionKey": "option", "redactNamespaces": "option",
	"redactedFieldsRegexp": "option",
	"AggregationOperators": "table", "CoreOperators": "table", "OperatorMapDefs": "table", "geoJSON": "table",
	"SearchOperators": "table", "SearchAggregationOperators": "table", "TopLevelSearchOperators": "table",
	"emailRegex": "pattern",
	"RedactedFieldMapping": "side-table (its address is loaded for the write; never looked up)",
}

// globals the per-line tree may write
var perLineWritable = map[string]bool{"RedactedFieldMapping": true}

type globalUse struct {
	fn, pos, kind, name string
}

// reachableMain: functions of package main reachable through static calls / closures from the roots.
func (s *Session) reachableMain(roots []string) []*ssa.Function {
	seen := map[*ssa.Function]bool{}
	var order []*ssa.Function
	var visit func(fn *ssa.Function)
	visit = func(fn *ssa.Function) {
		if fn == nil || fn.Blocks == nil || seen[fn] || fn.Pkg != s.g.pkg {
			return
		}
		seen[fn] = true
		order = append(order, fn)
		for _, b := range fn.Blocks {
			for _, in := range b.Instrs {
				switch x := in.(type) {
				case ssa.CallInstruction:
					visit(x.Common().StaticCallee())
					if mc, ok := x.Common().Value.(*ssa.MakeClosure); ok {
						visit(mc.Fn.(*ssa.Function))
					}
				case *ssa.MakeClosure:
					visit(x.Fn.(*ssa.Function))
				}
				// function values passed around
				for _, op := range in.Operands(nil) {
					if f, ok := (*op).(*ssa.Function); ok {
						visit(f)
					}
				}
			}
		}
	}
	for _, r := range roots {
		visit(s.fns[r])
	}
	return order
}

func (s *Session) globalUses(fns []*ssa.Function) []globalUse {
	var out []globalUse
	for _, fn := range fns {
		for _, b := range fn.Blocks {
			for _, in := range b.Instrs {
				pos := s.posOf(in.Pos())
				switch x := in.(type) {
				case *ssa.UnOp:
					if gv, ok := x.X.(*ssa.Global); ok && x.Op == token.MUL && gv.Pkg == s.g.pkg {
						out = append(out, globalUse{shortFnName(fn), pos, "read", gv.Name()})
					}
				case *ssa.Store:
					if gv, ok := x.Addr.(*ssa.Global); ok && gv.Pkg == s.g.pkg {
						out = append(out, globalUse{shortFnName(fn), pos, "write", gv.Name()})
					}
				case *ssa.MapUpdate:
					if ld, ok := x.Map.(*ssa.UnOp); ok {
						if gv, ok := ld.X.(*ssa.Global); ok && gv.Pkg == s.g.pkg {
							out = append(out, globalUse{shortFnName(fn), pos, "write", gv.Name()})
						}
					}
				case *ssa.Lookup:
					if ld, ok := x.X.(*ssa.UnOp); ok {
						if gv, ok := ld.X.(*ssa.Global); ok && gv.Pkg == s.g.pkg {
							out = append(out, globalUse{shortFnName(fn), pos, "lookup", gv.Name()})
						}
					}
				case *ssa.Range:
					if ld, ok := x.X.(*ssa.UnOp); ok {
						if gv, ok := ld.X.(*ssa.Global); ok && gv.Pkg == s.g.pkg {
							out = append(out, globalUse{shortFnName(fn), pos, "lookup", gv.Name()})
						}
					}
				}
				// the address of a package-level variable escaping into a call or a store is outside the analysis
				if call, ok := in.(ssa.CallInstruction); ok {
					for _, a := range call.Common().Args {
						if gv, ok := a.(*ssa.Global); ok && gv.Pkg == s.g.pkg {
							out = append(out, globalUse{shortFnName(fn), pos, "address-escapes", gv.Name()})
						}
					}
				}
			}
		}
	}
	return out
}

func (s *Session) frameObligations(prop string) []*Obligation {
	props := []string{"C06", "C02", "C10", "C19"}
	if !hasProp(props, prop) {
		return nil
	}
	fns := s.reachableMain(perLineRoots)
	uses := s.globalUses(fns)
	var names []string
	for _, f := range fns {
		names = append(names, shortFnName(f))
	}
	sort.Strings(names)
	byGlobal := map[string][]globalUse{}
	for _, u := range uses {
		byGlobal[u.kind+":"+u.name] = append(byGlobal[u.kind+":"+u.name], u)
	}
	var out []*Obligation
	for _, k := range sortedKeys(byGlobal) {
		us := byGlobal[k]
		kind, name := us[0].kind, us[0].name
		ok := false
		switch kind {
		case "read":
			_, ok = perLineReadable[name]
			if !ok && s.isInitOnlyPattern(name) {
				// a compiled regular expression that is assigned by package initialisation only: a constant of the program
				// (regexp.Regexp is immutable through its API), it cannot carry anything from one line or value to another
				ok = true
			}
		case "write":
			ok = perLineWritable[name]
		}
		var where []string
		for _, u := range us {
			where = append(where, u.fn+"@"+u.pos)
		}
		ob := &Obligation{Name: fmt.Sprintf("frame/per-line-call-tree/%s:%s", kind, name), Fn: "frame", Kind: "frame", Props: props, Backend: "frame",
			Clause: "the call tree of RedactMongoLog / MarshalOrdered reads only option globals, operator tables and the e-mail pattern, and writes only the write-only pseudonym side table",
			Pos: strings.Join(where, " "), Result: "unsat"}
		if !ok {
			ob.Result = "sat"
			ob.Raw = fmt.Sprintf("package-level variable %s is %s by the per-line call tree at %s: state other than the options and tables influences (or is carried between) lines / values", name, map[string]string{"read": "read", "write": "written", "lookup": "looked up / iterated", "address-escapes": "passed by address"}[kind], strings.Join(where, ", "))
		}
		out = append(out, ob)
	}
	// the side table is never read anywhere in package main
	var all []*ssa.Function
	for _, n := range sortedKeys(s.fns) {
		all = append(all, s.fns[n])
	}
	bad := ""
	for _, u := range s.globalUses(all) {
		if u.name == "RedactedFieldMapping" && (u.kind == "lookup" || u.kind == "address-escapes") {
			bad += " " + u.fn + "@" + u.pos
		}
	}
	ob := &Obligation{Name: "frame/side-table-is-write-only:RedactedFieldMapping", Fn: "frame", Kind: "frame", Props: append(props, "C13"), Backend: "frame",
		Clause: "RedactedFieldMapping is never looked up, iterated or passed on anywhere in package main (it cannot feed back into output)", Result: "unsat"}
	if bad != "" {
		ob.Result, ob.Raw = "sat", "RedactedFieldMapping is read at"+bad
	}
	out = append(out, ob)
	// every option global is written only by its setter (and never by the per-line tree): covered by the write check above;
	// record the function set for the evidence
	out = append(out, &Obligation{Name: "frame/per-line-call-tree/functions", Fn: "frame", Kind: "frame", Props: props, Backend: "frame", Result: "unsat",
		Clause: "functions of package main reachable from RedactMongoLog / MarshalOrdered: " + strings.Join(names, ", ")})
	return out
}

// isInitOnlyPattern: the package-level variable has type *regexp.Regexp and no function other than the package
// initialiser stores to it (or takes its address).
func (s *Session) isInitOnlyPattern(name string) bool {
	gv, ok := s.g.pkg.Members[name].(*ssa.Global)
	if !ok {
		return false
	}
	if t := gv.Type().String(); t != "**regexp.Regexp" {
		return false
	}
	for _, n := range sortedKeys(s.fns) {
		fn := s.fns[n]
		if fn.Name() == "init" || strings.HasPrefix(fn.Name(), "init#") {
			continue
		}
		for _, b := range fn.Blocks {
			for _, in := range b.Instrs {
				if st, ok := in.(*ssa.Store); ok && st.Addr == ssa.Value(gv) {
					return false
				}
				if call, ok := in.(ssa.CallInstruction); ok {
					for _, a := range call.Common().Args {
						if a == ssa.Value(gv) {
							return false
						}
					}
				}
			}
		}
	}
	return true
}
