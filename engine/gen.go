package main

// Gen: per-run global context — loaded program, spec, sorts, literals, symbol declarations.

import (
	"fmt"
	"go/constant"
	"go/types"
	"os"
	"sort"
	"strings"

	"golang.org/x/tools/go/packages"
	"golang.org/x/tools/go/ssa"
	"golang.org/x/tools/go/ssa/ssautil"
)

type Gen struct {
	spec    *Spec
	prog    *ssa.Program
	pkg     *ssa.Package
	pkgs    []*packages.Package
	repo    string
	lits    map[string]*Term
	litList []string
	// symbols declared on demand by the engine (uninterpreted functions / constants)
	autoFuns  map[string]*FunDecl
	autoOrder []string
	typeIDs   map[string]int
	fresh     int
	autoAxioms []string
	constGlob  map[string]*ssa.Const
	nonNilGlob map[string]bool // maps made in init and never reassigned
	axiomSeen map[string]bool
	renames   map[string]map[string]string // function -> name used by the contracts -> current name (renamed locals)
}

func LoadProgram(repo string) (*Gen, error) {
	cfg := &packages.Config{Mode: packages.LoadAllSyntax, Dir: repo, BuildFlags: []string{"-tags=verif"}, Env: append(os.Environ(), "GOFLAGS=-mod=mod", "GOPROXY=off")}
	pkgs, err := packages.Load(cfg, "./src")
	if err != nil {
		return nil, err
	}
	if n := packages.PrintErrors(pkgs); n > 0 {
		return nil, fmt.Errorf("%d package load errors (the tree does not compile)", n)
	}
	prog, spkgs := ssautil.AllPackages(pkgs, ssa.InstantiateGenerics|ssa.GlobalDebug)
	var mainPkg *ssa.Package
	for _, p := range spkgs {
		if p != nil && p.Pkg.Name() == "main" {
			mainPkg = p
		}
	}
	if mainPkg == nil {
		return nil, fmt.Errorf("package main not found")
	}
	mainPkg.Build()
	g := &Gen{prog: prog, pkg: mainPkg, pkgs: pkgs, repo: repo, lits: map[string]*Term{}, autoFuns: map[string]*FunDecl{}, typeIDs: map[string]int{}}
	return g, nil
}

func (g *Gen) freshName(prefix string) string {
	g.fresh++
	return fmt.Sprintf("%s!%d", smtName(prefix), g.fresh)
}

func (g *Gen) strLit(s string) *Term {
	if t, ok := g.lits[s]; ok {
		return t
	}
	t := Const(fmt.Sprintf("lit!%d", len(g.litList)), SStr)
	g.lits[s] = t
	g.litList = append(g.litList, s)
	return t
}

func (g *Gen) autoFun(name string, ret Sort, args ...Sort) string {
	name = smtName(name)
	if g.spec != nil {
		if _, declared := g.spec.Funs[name]; declared {
			return name
		}
	}
	if _, ok := g.autoFuns[name]; !ok {
		g.autoFuns[name] = &FunDecl{Name: name, Args: args, Ret: ret}
		g.autoOrder = append(g.autoOrder, name)
	}
	return name
}

func (g *Gen) extGlobal(name string) *Term {
	n := g.autoFun("ext_"+name, SInt)
	return Const(n, SInt)
}

func (g *Gen) mainGlobal(name string) *ssa.Global {
	if m, ok := g.pkg.Members[name]; ok {
		if gv, ok := m.(*ssa.Global); ok {
			return gv
		}
	}
	return nil
}

// goConst resolves a package-level constant of package main (e.g. RedactedISODate, Exempt).
func (g *Gen) goConst(name string) *Term {
	m, ok := g.pkg.Members[name]
	if !ok {
		return nil
	}
	c, ok := m.(*ssa.NamedConst)
	if !ok {
		return nil
	}
	return g.constTerm(c.Value)
}

func (g *Gen) constTerm(c *ssa.Const) *Term {
	s := g.sortOf(c.Type())
	if c.Value == nil {
		z := g.zero(c.Type())
		return z
	}
	switch s {
	case SInt:
		if c.Value.Kind() == constant.Int {
			if n, ok := constant.Int64Val(c.Value); ok {
				return g.withType(IntLit(n), c.Type())
			}
			if n, ok := constant.Uint64Val(c.Value); ok {
				return g.withType(&Term{Op: fmt.Sprint(n), Sort: SInt}, c.Type())
			}
		}
	case SBool:
		return BoolLit(constant.BoolVal(c.Value))
	case SStr:
		return g.withType(g.strLit(constant.StringVal(c.Value)), c.Type())
	case SF64:
		f, _ := constant.Float64Val(c.Value)
		if f == 0 {
			return Const("f64_0", SF64)
		}
		n := g.autoFun(fmt.Sprintf("f64lit_%s", smtName(c.Value.ExactString())), SF64)
		return Const(n, SF64)
	}
	panic(fmt.Sprintf("constTerm: unsupported constant %v of type %s", c, c.Type()))
}

func (g *Gen) withType(t *Term, ty types.Type) *Term {
	if t.Ty == ty {
		return t
	}
	n := *t
	n.Ty = ty
	return &n
}

func isByte(t types.Type) bool {
	b, ok := t.Underlying().(*types.Basic)
	return ok && (b.Kind() == types.Uint8 || b.Kind() == types.Byte)
}

func (g *Gen) sortOf(t types.Type) Sort {
	switch u := t.Underlying().(type) {
	case *types.Basic:
		info := u.Info()
		switch {
		case info&types.IsBoolean != 0:
			return SBool
		case info&types.IsInteger != 0:
			return SInt
		case info&types.IsString != 0:
			return SStr
		case info&types.IsFloat != 0:
			return SF64
		case u.Kind() == types.UnsafePointer:
			return SInt
		case u.Kind() == types.UntypedNil:
			return SInt
		}
	case *types.Pointer, *types.Map, *types.Chan, *types.Signature:
		return SInt
	case *types.Slice:
		return SSlice
	case *types.Interface:
		if u.NumMethods() == 0 {
			return SVal
		}
		return SInt
	case *types.Struct:
		return SOpq
	case *types.Array:
		return ArrSort(SInt, g.sortOf(u.Elem()))
	case *types.Tuple:
		return SNone
	}
	panic(fmt.Sprintf("sortOf: unsupported type %s", t))
}

func (g *Gen) zero(t types.Type) *Term {
	s := g.sortOf(t)
	var z *Term
	switch s {
	case SInt:
		z = IntLit(0)
	case SBool:
		z = False
	case SStr:
		z = g.strLit("")
	case SVal:
		z = Const("VNil", SVal)
	case SSlice:
		z = Const("nilslice", SSlice)
	case SF64:
		z = Const("f64_0", SF64)
	case SOpq:
		z = Const("opq_zero", SOpq)
	default:
		n := g.autoFun("zero_"+string(s), s)
		z = Const(n, s)
	}
	return g.withType(z, t)
}

func typeShort(t types.Type) string {
	s := types.TypeString(t, func(p *types.Package) string { return p.Name() })
	return s
}

func (g *Gen) typeID(t types.Type) int {
	k := typeShort(t)
	if id, ok := g.typeIDs[k]; ok {
		return id
	}
	id := len(g.typeIDs) + 1
	g.typeIDs[k] = id
	return id
}

func (g *Gen) fieldComp(structTy types.Type, idx int) string {
	st := structTy.Underlying().(*types.Struct)
	f := st.Field(idx)
	name := typeShort(structTy)
	if _, ok := structTy.(*types.Struct); ok {
		name = "anon"
	}
	return "Fld:" + smtName(name) + "." + f.Name() + ":" + string(g.sortOf(f.Type()))
}

// ---- state ------------------------------------------------------------------------------------

// State maps heap/global/ghost components to their current term.
type State struct {
	m map[string]*Term
}

func NewState() *State { return &State{m: map[string]*Term{}} }

func (s *State) Clone() *State {
	n := &State{m: make(map[string]*Term, len(s.m))}
	for k, v := range s.m {
		n.m[k] = v
	}
	return n
}

// compSort derives the sort of a component from its name.
func (g *Gen) compSort(comp string) Sort {
	switch {
	case comp == "heapTop":
		return SInt
	case strings.HasPrefix(comp, "Mem:"):
		return ArrSort(SInt, Sort(comp[4:]))
	case strings.HasPrefix(comp, "Arr:"):
		return ArrSort(SInt, ArrSort(SInt, Sort(comp[4:])))
	case strings.HasPrefix(comp, "Fld:"):
		i := strings.LastIndex(comp, ":")
		return ArrSort(SInt, Sort(comp[i+1:]))
	case strings.HasPrefix(comp, "g:"):
		if s, ok := g.spec.Ghosts[comp[2:]]; ok {
			return s
		}
	case strings.HasPrefix(comp, "G:"):
		if gv := g.mainGlobal(comp[2:]); gv != nil {
			return g.sortOf(gv.Type().(*types.Pointer).Elem())
		}
	case comp == "GoMaps":
		return SInt
	}
	panic("compSort: unknown component " + comp)
}

func compSym(comp string) string {
	return smtName(strings.NewReplacer(":", "_", ".", "_").Replace(comp))
}

// Get returns the current term of a component; components never written are the entry constants.
func (s *State) Get(g *Gen, comp string) *Term {
	if t, ok := s.m[comp]; ok {
		return t
	}
	t := Const(compSym(comp)+"!0", g.compSort(comp))
	if strings.HasPrefix(comp, "G:") {
		if gv := g.mainGlobal(comp[2:]); gv != nil {
			t = g.withType(t, gv.Type().(*types.Pointer).Elem())
		}
	}
	s.m[comp] = t
	return t
}

func (s *State) Set(comp string, t *Term) { s.m[comp] = t }

func (s *State) Comps() []string {
	ks := make([]string, 0, len(s.m))
	for k := range s.m {
		ks = append(ks, k)
	}
	sort.Strings(ks)
	return ks
}

func (g *Gen) addAutoAxiom(key, smt string) {
	if g.axiomSeen == nil {
		g.axiomSeen = map[string]bool{}
	}
	if g.axiomSeen[key] {
		return
	}
	g.axiomSeen[key] = true
	g.autoAxioms = append(g.autoAxioms, smt)
}

// lookupType finds a named type by "pkgname.Type" among all loaded packages.
func (g *Gen) lookupType(name string) types.Type {
	i := strings.LastIndex(name, ".")
	if i < 0 {
		if m, ok := g.pkg.Members[name]; ok {
			if t, ok := m.(*ssa.Type); ok {
				return t.Type()
			}
		}
		return nil
	}
	pn, tn := name[:i], name[i+1:]
	for _, p := range g.prog.AllPackages() {
		if p.Pkg.Name() == pn || p.Pkg.Path() == pn {
			if m, ok := p.Members[tn]; ok {
				if t, ok := m.(*ssa.Type); ok {
					return t.Type()
				}
			}
		}
	}
	return nil
}

// constGlobals: package-level variables of package main that are initialised with a constant and never
// stored to by any function of the package. Their value is a package invariant (checked syntactically on
// every run) and is assumed at the entry of every function under contract.
func (g *Gen) constGlobals() map[string]*ssa.Const {
	if g.constGlob != nil {
		return g.constGlob
	}
	out := map[string]*ssa.Const{}
	stored := map[string]bool{}
	var visit func(fn *ssa.Function, isInit bool)
	visit = func(fn *ssa.Function, isInit bool) {
		if fn == nil || fn.Blocks == nil {
			return
		}
		for _, b := range fn.Blocks {
			for _, in := range b.Instrs {
				st, ok := in.(*ssa.Store)
				if !ok {
					continue
				}
				gv, ok := st.Addr.(*ssa.Global)
				if !ok || gv.Pkg != g.pkg {
					continue
				}
				if _, isMk := st.Val.(*ssa.MakeMap); isMk && isInit {
					if g.nonNilGlob == nil {
						g.nonNilGlob = map[string]bool{}
					}
					if g.nonNilGlob[gv.Name()] {
						stored[gv.Name()] = true
					}
					g.nonNilGlob[gv.Name()] = true
				} else if c, isConst := st.Val.(*ssa.Const); isConst && isInit {
					if _, dup := out[gv.Name()]; dup {
						stored[gv.Name()] = true
					}
					out[gv.Name()] = c
				} else {
					stored[gv.Name()] = true
				}
			}
		}
		for _, a := range fn.AnonFuncs {
			visit(a, false)
		}
	}
	for _, m := range g.pkg.Members {
		switch m := m.(type) {
		case *ssa.Function:
			visit(m, m.Name() == "init")
		case *ssa.Type:
			for _, t := range []types.Type{m.Type(), types.NewPointer(m.Type())} {
				ms := g.prog.MethodSets.MethodSet(t)
				for i := 0; i < ms.Len(); i++ {
					visit(g.prog.MethodValue(ms.At(i)), false)
				}
			}
		}
	}
	for n := range stored {
		delete(out, n)
		delete(g.nonNilGlob, n)
	}
	g.constGlob = out
	return out
}
