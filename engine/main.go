package main

import (
	"flag"
	"fmt"
	"go/types"
	"os"
	"path/filepath"
	"runtime"
	"sort"
	"strings"
	"time"

	"golang.org/x/tools/go/ssa"
)

var (
	verifDir = "/verif"
	repoDir  = "/repo"
)

func usage() {
	fmt.Fprintln(os.Stderr, `usage:
  govc check <Cxx> [--tier quick|thorough]   decide one property (writes evidence/<Cxx>.json)
  govc all   [--tier quick|thorough]          run every obligation of every function under contract
  govc dump  <function> [obligation-substr]   print obligations (and SMT text) of one function
  govc lock                                    rewrite obligations.lock.json from the current tree
  govc replay <file>                           re-run a replay file against the real code`)
	os.Exit(2)
}

func main() {
	if len(os.Args) < 2 {
		usage()
	}
	if d := os.Getenv("VERIF_DIR"); d != "" {
		verifDir = d
	}
	if d := os.Getenv("VERIF_REPO"); d != "" {
		repoDir = d
	}
	cmd := os.Args[1]
	fs := flag.NewFlagSet(cmd, flag.ExitOnError)
	tier := fs.String("tier", envOr("VERIF_TIER", "quick"), "quick|thorough")
	jobs := fs.Int("j", runtime.NumCPU(), "parallel solver jobs")
	var pos []string
	rest := os.Args[2:]
	for len(rest) > 0 {
		if strings.HasPrefix(rest[0], "-") {
			fs.Parse(rest)
			rest = fs.Args()
			continue
		}
		pos = append(pos, rest[0])
		rest = rest[1:]
	}
	switch cmd {
	case "dump":
		if len(pos) < 1 {
			usage()
		}
		os.Exit(cmdDump(pos))
	case "search":
		os.Exit(cmdSearch(pos[0]))
	case "calls":
		os.Exit(cmdCalls(pos))
	case "check":
		if len(pos) != 1 {
			usage()
		}
		os.Exit(cmdCheck(pos[0], *tier, *jobs))
	case "all":
		os.Exit(cmdAll(*tier, *jobs))
	case "multi":
		ps := pos
		if len(ps) == 0 {
			ps = propsList()
		}
		os.Exit(cmdMulti(ps, *tier, *jobs))
	case "lock":
		os.Exit(cmdLock(*jobs))
	case "replay":
		if len(pos) != 1 {
			usage()
		}
		os.Exit(cmdReplay(pos[0]))
	default:
		usage()
	}
}

func envOr(k, d string) string {
	if v := os.Getenv(k); v != "" {
		return v
	}
	return d
}

// ---- loading -----------------------------------------------------------------------------------

type Session struct {
	g       *Gen
	fns     map[string]*ssa.Function
	solver  *Solver
	started time.Time
	loadMs  int64
	tables  *tableDump
	vcCache map[string]*FnVC // per contract: generated once per session (a session may check several properties)
}

func contractsFile() string { return filepath.Join(repoDir, "src", "contracts_verif.go") }

func loadSession() (*Session, error) {
	start := time.Now()
	g, err := LoadProgram(repoDir)
	if err != nil {
		return nil, err
	}
	sp := NewSpec()
	if err := sp.LoadFile(filepath.Join(verifDir, "spec", "prelude.vc"), "", true); err != nil {
		return nil, err
	}
	if err := sp.LoadFile(filepath.Join(verifDir, "spec", "externals.vc"), "", true); err != nil {
		return nil, err
	}
	if err := sp.LoadFile(contractsFile(), "//@", false); err != nil {
		return nil, err
	}
	g.spec = sp
	if lk, err := loadLock(); err == nil && lk != nil && len(lk.Names) > 0 {
		g.renames = map[string]map[string]string{}
		for fn, cur := range g.allDeclaredNames() {
			if old, ok := lk.Names[fn]; ok {
				if r := renameMap(old, cur); r != nil {
					g.renames[fn] = r
				}
			}
		}
	}
	s := &Session{g: g, fns: map[string]*ssa.Function{}, started: start}
	var add func(fn *ssa.Function)
	add = func(fn *ssa.Function) {
		if fn == nil || fn.Blocks == nil {
			return
		}
		s.fns[shortFnName(fn)] = fn
		for _, a := range fn.AnonFuncs {
			add(a)
		}
	}
	for _, m := range g.pkg.Members {
		switch m := m.(type) {
		case *ssa.Function:
			add(m)
		case *ssa.Type:
			for _, t := range []types.Type{m.Type(), types.NewPointer(m.Type())} {
				ms := g.prog.MethodSets.MethodSet(t)
				for i := 0; i < ms.Len(); i++ {
					add(g.prog.MethodValue(ms.At(i)))
				}
			}
		}
	}
	sol, err := NewSolver(g)
	if err != nil {
		return nil, err
	}
	s.solver = sol
	s.loadMs = time.Since(start).Milliseconds()
	return s, nil
}

// ownContracts lists the contracts of package-main functions in a stable order.
func (s *Session) ownContracts() []*Contract {
	var out []*Contract
	for _, n := range sortedKeys(s.g.spec.Contracts) {
		c := s.g.spec.Contracts[n]
		if !c.External && n != "package" {
			out = append(out, c)
		}
	}
	return out
}

func (s *Session) generate(ct *Contract) (*FnVC, error) {
	fn := s.fns[ct.Name]
	if fn == nil {
		return nil, fmt.Errorf("contract %s (%s): no such function in package main", ct.Name, ct.Source)
	}
	if vc, ok := s.vcCache[ct.Name]; ok {
		return vc, nil
	}
	vc := GenerateVC(s.g, fn, ct)
	if s.vcCache == nil {
		s.vcCache = map[string]*FnVC{}
	}
	s.vcCache[ct.Name] = vc
	return vc, nil
}

func hasProp(props []string, p string) bool {
	for _, q := range props {
		if q == p {
			return true
		}
	}
	return false
}

func contractMentions(ct *Contract, prop string) bool {
	if hasProp(ct.Props, prop) || hasProp(ct.SafetyProps, prop) {
		return true
	}
	for _, cs := range [][]*Clause{ct.Requires, ct.Ensures, ct.ExitReq, ct.AtCalls} {
		for _, c := range cs {
			if hasProp(c.Props, prop) {
				return true
			}
		}
	}
	for _, cs := range ct.Invariants {
		for _, c := range cs {
			if hasProp(c.Props, prop) {
				return true
			}
		}
	}
	for _, cs := range ct.Each {
		for _, c := range cs {
			if hasProp(c.Props, prop) {
				return true
			}
		}
	}
	for _, c := range ct.Defines {
		if hasProp(c.Props, prop) {
			return true
		}
	}
	return false
}

// ---- dump ----------------------------------------------------------------------------------------

func cmdDump(pos []string) int {
	s, err := loadSession()
	if err != nil {
		fmt.Fprintln(os.Stderr, "load:", err)
		return 2
	}
	defer s.solver.Close()
	ct := s.g.spec.Contracts[pos[0]]
	if ct == nil {
		fmt.Fprintln(os.Stderr, "no contract for", pos[0])
		return 2
	}
	vc, err := s.generate(ct)
	if err != nil {
		fmt.Fprintln(os.Stderr, err)
		return 2
	}
	for _, u := range vc.unsupported {
		fmt.Println("UNSUPPORTED:", u)
	}
	for _, e := range sortedKeys(vc.assumedExt) {
		fmt.Println("assumed no-effect external:", e)
	}
	var sel []*Obligation
	for _, ob := range vc.obs {
		if len(pos) > 1 && !strings.Contains(ob.Name, pos[1]) {
			continue
		}
		sel = append(sel, ob)
	}
	s.solver.Solve(sel, false, 10, runtime.NumCPU())
	for _, ob := range sel {
		fmt.Printf("%-8s %-7s %5dms  %s  %v  [%s]\n", ob.Result, ob.Backend, ob.Ms, ob.Name, ob.Props, ob.Pos)
		if len(pos) > 1 {
			fmt.Println(s.solver.Script(ob))
			if ob.Result != "unsat" {
				fmt.Println(ob.Raw)
			}
		}
	}
	return 0
}

func cmdAll(tier string, jobs int) int {
	s, err := loadSession()
	if err != nil {
		fmt.Fprintln(os.Stderr, "load:", err)
		return 2
	}
	defer s.solver.Close()
	var all []*Obligation
	bad := 0
	for _, ct := range s.ownContracts() {
		vc, err := s.generate(ct)
		if err != nil {
			fmt.Println("ERROR", err)
			bad++
			continue
		}
		for _, u := range vc.unsupported {
			fmt.Printf("UNSUPPORTED %s: %s\n", ct.Name, u)
			bad++
		}
		all = append(all, vc.obs...)
	}
	s.solver.Solve(all, tier == "thorough", timeoutFor(tier), jobs)
	sort.SliceStable(all, func(i, j int) bool { return all[i].Name < all[j].Name })
	for _, ob := range all {
		if ob.Result != "unsat" {
			bad++
		}
		fmt.Printf("%-8s %-7s %5dms  %s  %v  [%s]\n", ob.Result, ob.Backend, ob.Ms, ob.Name, ob.Props, ob.Pos)
	}
	fmt.Printf("%d obligations, %d not discharged, %.1fs\n", len(all), bad, time.Since(s.started).Seconds())
	if bad > 0 {
		return 1
	}
	return 0
}

func timeoutFor(tier string) int {
	if tier == "thorough" {
		return 20
	}
	return 10
}

// cmdCalls lists the callees of a function (helper for writing externals.vc).
func cmdCalls(names []string) int {
	s, err := loadSession()
	if err != nil {
		fmt.Fprintln(os.Stderr, "load:", err)
		return 2
	}
	defer s.solver.Close()
	for _, n := range names {
		fn := s.fns[n]
		if fn == nil {
			fmt.Println("no function", n)
			continue
		}
		seen := map[string]bool{}
		for _, b := range fn.Blocks {
			for _, in := range b.Instrs {
				if c, ok := in.(ssa.CallInstruction); ok {
					cn := calleeName(c.Common())
					if !seen[cn] {
						seen[cn] = true
						have := ""
						if s.g.spec.Contracts[cn] != nil {
							have = "  [contract]"
						}
						fmt.Printf("%s -> %s %s%s\n", n, cn, c.Common().Signature(), have)
					}
				}
			}
		}
	}
	return 0
}

func init() {
	if os.Getenv("GOVC_NOSLICE") != "" {
		noSlice = true
	}
}

// cmdSearch runs the witness search of one property on the real code (debug helper).
func cmdSearch(prop string) int {
	r, raw, err := runHarness(map[string]any{"mode": "search", "property": prop, "hint": ""})
	if err != nil {
		fmt.Println("error:", err)
		fmt.Println(raw)
		return 2
	}
	fmt.Printf("violated=%v tried=%d\ninput=%v\nobserved=%s\n", r.Violated, r.Tried, r.Input, r.Observed)
	return 0
}
