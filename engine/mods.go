package main

// Modification analysis: which state components a piece of code may change, and whether a heap array is
// changed only at references allocated by that code ("fresh").

import (
	"go/types"
	"strings"

	"golang.org/x/tools/go/ssa"
)

// ModSet: full = arbitrary change; fresh = heap arrays changed only at references allocated during the
// code in question (everything at references <= the heap top before it keeps its value).
type ModSet struct {
	full  map[string]bool
	fresh map[string]bool
}

func newModSet() *ModSet { return &ModSet{full: map[string]bool{}, fresh: map[string]bool{}} }

func (m *ModSet) addFull(c string) {
	m.full[c] = true
	delete(m.fresh, c)
}

func (m *ModSet) addFresh(c string) {
	if !m.full[c] {
		m.fresh[c] = true
	}
}

func (m *ModSet) union(o *ModSet) {
	for k := range o.full {
		m.addFull(k)
	}
	for k := range o.fresh {
		m.addFresh(k)
	}
}

// ghost components that are keyed by an object reference behave like heap arrays for framing purposes
var refKeyedGhosts = map[string]bool{"g:bufText": true, "g:decUseNumber": true}

func isHeapArray(comp string) bool {
	return strings.HasPrefix(comp, "Mem:") || strings.HasPrefix(comp, "Arr:") || strings.HasPrefix(comp, "Fld:") || refKeyedGhosts[comp]
}

// allocRoot follows an address back to the allocation it points into, if that is syntactically evident.
func allocRoot(v ssa.Value) ssa.Instruction {
	for i := 0; i < 8; i++ {
		switch x := v.(type) {
		case *ssa.Alloc:
			return x
		case *ssa.MakeSlice:
			return x
		case *ssa.FieldAddr:
			v = x.X
		case *ssa.IndexAddr:
			v = x.X
		case *ssa.Slice:
			v = x.X
		default:
			return nil
		}
	}
	return nil
}

type modScan struct {
	vc     *FnVC
	fn     *ssa.Function
	within map[*ssa.BasicBlock]bool // nil: every allocation of fn counts as fresh
	seen   map[*ssa.Function]bool
	fr     *Frame
}

func (sc *modScan) isFresh(addr ssa.Value) bool {
	root := allocRoot(addr)
	if root == nil {
		return false
	}
	if sc.within == nil {
		return true
	}
	return sc.within[root.Block()]
}

func (sc *modScan) instr(in ssa.Instruction, ms *ModSet) {
	g := sc.vc.g
	switch x := in.(type) {
	case *ssa.Store:
		for _, c := range sc.fr.addrComps(x.Addr) {
			if isHeapArray(c) && sc.isFresh(x.Addr) {
				ms.addFresh(c)
			} else {
				ms.addFull(c)
			}
		}
	case *ssa.Alloc:
		ms.addFull("heapTop")
		el := x.Type().(*types.Pointer).Elem()
		if typeShort(el) == "bytes.Buffer" {
			if _, declared := g.spec.Ghosts["bufText"]; declared {
				ms.addFull("g:bufText")
			}
		}
		if _, isArr := el.Underlying().(*types.Array); !isArr {
			if _, isStruct := el.Underlying().(*types.Struct); !isStruct {
				ms.addFresh("Mem:" + string(g.sortOf(el)))
			}
		}
	case *ssa.MakeSlice, *ssa.MakeMap, *ssa.MakeClosure:
		ms.addFull("heapTop")
	case *ssa.Convert:
		if g.sortOf(x.Type()) == SSlice {
			ms.addFull("heapTop")
			ms.addFresh("Arr:Int")
		}
	case *ssa.MapUpdate:
		ms.addFull("GoMaps")
	case *ssa.Call:
		sc.call(x.Common(), ms)
	case *ssa.Defer:
		sc.call(x.Common(), ms)
	}
}

func (sc *modScan) call(c *ssa.CallCommon, ms *ModSet) {
	g := sc.vc.g
	name := calleeName(c)
	if b, ok := c.Value.(*ssa.Builtin); ok {
		if b.Name() == "append" {
			ms.addFull("heapTop")
			if sl, ok := c.Args[0].Type().Underlying().(*types.Slice); ok {
				// appending may write into the existing backing array
				ms.addFull("Arr:" + string(g.sortOf(sl.Elem())))
			}
		}
		return
	}
	ct := g.spec.Contracts[name]
	if ct == nil {
		if fn := c.StaticCallee(); fn != nil && fn.Pkg == g.pkg && fn.Blocks != nil {
			ms.union(sc.vc.bodyMods(fn, sc.seen))
			return
		}
		// unknown external: pointer arguments that are local cells may be written
		for _, a := range c.Args {
			if pt, ok := a.Type().Underlying().(*types.Pointer); ok {
				if _, isAlloc := a.(*ssa.Alloc); isAlloc {
					for _, cm := range sc.fr.cellComps(pt.Elem()) {
						if sc.isFresh(a) {
							ms.addFresh(cm)
						} else {
							ms.addFull(cm)
						}
					}
				}
			}
		}
		return
	}
	ms.union(sc.vc.contractMods(ct, c.StaticCallee(), sc.seen))
	for _, hc := range ct.HavocCells {
		for i, p := range ct.Params {
			if p != hc {
				continue
			}
			args := c.Args
			if c.IsInvoke() {
				if i == 0 {
					continue
				}
				i--
			}
			if i < len(args) {
				if pt, ok := args[i].Type().Underlying().(*types.Pointer); ok {
					for _, cm := range sc.fr.cellComps(pt.Elem()) {
						if sc.isFresh(args[i]) {
							ms.addFresh(cm)
						} else {
							ms.addFull(cm)
						}
					}
				}
			}
		}
	}
}

// bodyMods scans a whole function body (allocations of the function count as fresh).
func (vc *FnVC) bodyMods(fn *ssa.Function, seen map[*ssa.Function]bool) *ModSet {
	ms := newModSet()
	if seen[fn] || fn.Blocks == nil {
		return ms
	}
	seen[fn] = true
	sc := &modScan{vc: vc, fn: fn, seen: seen, fr: &Frame{vc: vc, fn: fn}}
	for _, b := range fn.Blocks {
		for _, in := range b.Instrs {
			sc.instr(in, ms)
		}
	}
	delete(seen, fn)
	return ms
}

// loopMods scans the body of a loop (only allocations inside the loop count as fresh).
func (fr *Frame) loopMods(li *loopInfo) *ModSet {
	ms := newModSet()
	sc := &modScan{vc: fr.vc, fn: fr.fn, within: li.body, seen: map[*ssa.Function]bool{fr.fn: true}, fr: fr}
	for b := range li.body {
		for _, in := range b.Instrs {
			sc.instr(in, ms)
		}
	}
	return ms
}

// contractMods computes the ModSet of a callee with a contract.
func (vc *FnVC) contractMods(ct *Contract, fn *ssa.Function, seen map[*ssa.Function]bool) *ModSet {
	g := vc.g
	ms := newModSet()
	for _, a := range ct.Assigns {
		ms.addFull(compOfAssign(g, a))
	}
	for _, s := range ct.Sets {
		ms.addFull(compOfAssign(g, s.Var))
	}
	for _, a := range ct.Allocs {
		ms.addFresh(compOfAssign(g, a))
	}
	if ct.External || fn == nil || fn.Blocks == nil {
		if len(ms.fresh) > 0 {
			ms.addFull("heapTop")
		}
		return ms
	}
	inferred := vc.bodyMods(fn, seen)
	for k := range inferred.full {
		if ms.full[k] {
			continue
		}
		if ct.HasAssigns {
			// declared frame: unlisted heap arrays change at fresh references only and unlisted scalars do
			// not change at all - both verified by the callee's own frame obligations
			if isHeapArray(k) {
				ms.addFresh(k)
			} else if k == "heapTop" || k == "GoMaps" {
				ms.addFull(k)
			}
		} else {
			ms.addFull(k)
		}
	}
	for k := range inferred.fresh {
		ms.addFresh(k)
	}
	return ms
}
