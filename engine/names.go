package main

// Renamed locals. Contracts name source-level parameters, results and locals of the functions they describe. A pure
// rename of such a variable (no change of behaviour) would leave the contract unbound. The lock file therefore
// records, per function, the declared variables in source order with their types, as of the unchanged tree
// ("names"). On every run the current declarations are aligned with the recorded ones (longest common subsequence
// of name+type; a gap with the same number of declarations of pairwise identical types on both sides is read as a
// rename) and the names a contract uses are translated to the current ones before they are resolved.

import (
	"go/ast"
	"go/types"
	"sort"
	"strings"

	"golang.org/x/tools/go/ssa"
)

type DeclName struct {
	Name string `json:"n"`
	Type string `json:"t"`
}

// declaredNames lists the variables a function declares (receiver, parameters, named results, locals), in source
// order; nested function literals are not entered (they are functions of their own).
func (g *Gen) declaredNames(fn *ssa.Function) []DeclName {
	root := fn.Syntax()
	if root == nil {
		return nil
	}
	var info *types.Info
	for _, p := range g.pkgs {
		if p.Types != nil && p.Types.Name() == "main" && p.TypesInfo != nil {
			info = p.TypesInfo
		}
	}
	if info == nil {
		return nil
	}
	type rec struct {
		pos int
		d   DeclName
	}
	var recs []rec
	qual := func(p *types.Package) string { return p.Name() }
	ast.Inspect(root, func(n ast.Node) bool {
		if n == nil {
			return true
		}
		if fl, ok := n.(*ast.FuncLit); ok && ast.Node(fl) != root {
			return false
		}
		id, ok := n.(*ast.Ident)
		if !ok || id.Name == "_" {
			return true
		}
		if v, ok := info.Defs[id].(*types.Var); ok && !v.IsField() {
			recs = append(recs, rec{int(id.Pos()), DeclName{id.Name, types.TypeString(v.Type(), qual)}})
		}
		return true
	})
	// type-switch bindings (`switch x := v.(type)`) are implicit objects, one per clause
	ast.Inspect(root, func(n ast.Node) bool {
		if fl, ok := n.(*ast.FuncLit); ok && ast.Node(fl) != root {
			return false
		}
		if cc, ok := n.(*ast.CaseClause); ok {
			if v, ok := info.Implicits[cc].(*types.Var); ok {
				recs = append(recs, rec{int(cc.Pos()), DeclName{v.Name(), types.TypeString(v.Type(), qual)}})
			}
		}
		return true
	})
	sort.SliceStable(recs, func(i, j int) bool { return recs[i].pos < recs[j].pos })
	out := make([]DeclName, len(recs))
	for i, r := range recs {
		out[i] = r.d
	}
	return out
}

func (g *Gen) allDeclaredNames() map[string][]DeclName {
	out := map[string][]DeclName{}
	var visit func(fn *ssa.Function)
	visit = func(fn *ssa.Function) {
		if fn == nil || fn.Syntax() == nil {
			return
		}
		out[shortFnName(fn)] = g.declaredNames(fn)
		for _, a := range fn.AnonFuncs {
			visit(a)
		}
	}
	for _, m := range g.pkg.Members {
		switch x := m.(type) {
		case *ssa.Function:
			visit(x)
		case *ssa.Type:
			for _, t := range []types.Type{x.Type(), types.NewPointer(x.Type())} {
				ms := g.prog.MethodSets.MethodSet(t)
				for i := 0; i < ms.Len(); i++ {
					visit(g.prog.MethodValue(ms.At(i)))
				}
			}
		}
	}
	return out
}

// renameMap aligns the recorded declarations with the current ones and returns old name -> current name for the
// declarations that were renamed. Ambiguous cases (an old name mapped to two different current names) are dropped.
func renameMap(old, cur []DeclName) map[string]string {
	n, m := len(old), len(cur)
	if n == 0 || m == 0 {
		return nil
	}
	lcs := make([][]int, n+1)
	for i := range lcs {
		lcs[i] = make([]int, m+1)
	}
	for i := n - 1; i >= 0; i-- {
		for j := m - 1; j >= 0; j-- {
			if old[i] == cur[j] {
				lcs[i][j] = lcs[i+1][j+1] + 1
			} else if lcs[i+1][j] >= lcs[i][j+1] {
				lcs[i][j] = lcs[i+1][j]
			} else {
				lcs[i][j] = lcs[i][j+1]
			}
		}
	}
	out := map[string]string{}
	bad := map[string]bool{}
	gap := func(i0, i1, j0, j1 int) {
		if i1-i0 != j1-j0 {
			return
		}
		for k := 0; k < i1-i0; k++ {
			if old[i0+k].Type != cur[j0+k].Type {
				return
			}
		}
		for k := 0; k < i1-i0; k++ {
			o, c := old[i0+k].Name, cur[j0+k].Name
			if o == c {
				continue
			}
			if prev, ok := out[o]; ok && prev != c {
				bad[o] = true
			}
			out[o] = c
		}
	}
	i, j, gi, gj := 0, 0, 0, 0
	for i < n && j < m {
		if old[i] == cur[j] {
			gap(gi, i, gj, j)
			i++
			j++
			gi, gj = i, j
		} else if lcs[i+1][j] >= lcs[i][j+1] {
			i++
		} else {
			j++
		}
	}
	gap(gi, n, gj, m)
	// a name that is still declared (unchanged) somewhere in the function is not translated: the contract may mean that one
	still := map[string]bool{}
	for _, c := range cur {
		still[c.Name] = true
	}
	for o := range out {
		if bad[o] || still[o] {
			delete(out, o)
		}
	}
	if len(out) == 0 {
		return nil
	}
	return out
}

// currentName translates a name used by a contract into the name the variable has now; ctx lists the functions whose
// declarations the contract text may refer to (the function under contract, then the callee for call-site clauses).
func (g *Gen) currentName(ctx []string, name string) string {
	for _, f := range ctx {
		if r, ok := g.renames[f]; ok {
			if c, ok := r[name]; ok {
				return c
			}
		}
	}
	return name
}

// importsPackage: is name the (local) name of a package imported by a file of package main?
func (g *Gen) importsPackage(name string) bool {
	for _, p := range g.pkgs {
		if p.Types == nil || p.Types.Name() != "main" {
			continue
		}
		for _, f := range p.Syntax {
			for _, im := range f.Imports {
				if im.Name != nil {
					if im.Name.Name == name {
						return true
					}
					continue
				}
				path := strings.Trim(im.Path.Value, "\"")
				if imp := p.Imports[path]; imp != nil && imp.Name == name {
					return true
				}
				if i := strings.LastIndex(path, "/"); path[i+1:] == name {
					return true
				}
			}
		}
	}
	return false
}
