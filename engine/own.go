package main

// Walk-once check (back end "flow"): the syntactic side of assumption OWN. A container of the parsed line (a document, an
// array, an `any` holding one) is handed to a value walker at most once on every execution path of the function that owns it:
// the array walkers rewrite in place and the relations the contracts prove speak about ONE application of the leaf function,
// so a second walk over the same container (e.g. a pre-pass plus the ordinary pass) redacts redacted values again - under
// --encrypt the ciphertext of a ciphertext. The check is over SSA, per function, for all executions; it does not prove
// that two DIFFERENT names never alias (that part of OWN stays assumed: JSON trees are trees).

import (
	"fmt"
	"go/types"
	"os"
	"sort"
	"strings"

	"golang.org/x/tools/go/ssa"
)

// walker -> index of its container parameter, by class: a container may pass through one walker of each class
var ownWalkers = map[string]struct {
	param int
	class string
}{
	"redactCommand":            {0, "values"},
	"redactQueryValues":        {0, "values"},
	"redactArrayValuesWithKey": {1, "values"},
	"redactArrayValues":        {0, "values"},
	"redactPipelineStage":      {0, "values"},
	"redactNamespace":          {0, "names"},
	"hashNamespaceDocument":    {0, "names"},
}

var ownRoots = []string{"RedactMongoLog", "redactCommand", "redactNamespace", "hashNamespaceDocument", "redactQueryValues", "redactArrayValuesWithKey", "redactArrayValues", "redactPipelineStage"}

type ownOrigin struct {
	key   string            // canonical description; equal keys = same container, as long as no shared binding is executed again
	binds []ssa.Instruction // the instructions that (re)bind it, outermost first (element variable of a loop, load of an element, Get call)
}

func (o ownOrigin) with(key string, in ssa.Instruction) ownOrigin {
	return ownOrigin{key: key, binds: append(append([]ssa.Instruction{}, o.binds...), in)}
}

func (s *Session) ownObligations(prop string) []*Obligation {
	switch prop {
	case "C01", "C02", "C03", "C05", "C09", "C10", "C14", "C15", "C19":
	default:
		return nil
	}
	fns := map[*ssa.Function]bool{}
	var visit func(fn *ssa.Function)
	visit = func(fn *ssa.Function) {
		if fn == nil || fns[fn] || fn.Blocks == nil {
			return
		}
		fns[fn] = true
		for _, b := range fn.Blocks {
			for _, in := range b.Instrs {
				if call, ok := in.(ssa.CallInstruction); ok {
					cal := call.Common().StaticCallee()
					if cal != nil && cal.Pkg == s.g.pkg {
						visit(cal)
					}
				}
			}
		}
	}
	for _, n := range ownRoots {
		visit(s.fns[n])
	}
	var names []string
	byName := map[string]*ssa.Function{}
	for fn := range fns {
		n := shortFnName(fn)
		names = append(names, n)
		byName[n] = fn
	}
	sort.Strings(names)
	var out []*Obligation
	for _, n := range names {
		fn := byName[n]
		calls := 0
		viol := s.ownCheck(fn, &calls)
		if calls == 0 {
			continue
		}
		ob := &Obligation{Name: "own/" + n + ":a-container-is-handed-to-a-walker-at-most-once", Fn: n, Kind: "flow", Props: []string{prop}, Backend: "flow", Result: "unsat", Pos: s.posOf(fn.Pos()),
			Clause: "on every path through the function a container of the line (document, array, element of one) reaches a value walker at most once, and a name walker at most once"}
		if len(viol) > 0 {
			ob.Result = "sat"
			ob.Raw = strings.Join(viol, "\n")
		}
		out = append(out, ob)
	}
	for _, n := range names {
		fn := byName[n]
		stores := 0
		viol := s.ownFreshCheck(fn, &stores)
		if stores == 0 {
			continue
		}
		ob := &Obligation{Name: "own/" + n + ":a-stored-array-is-allocated-in-the-iteration-that-stores-it", Fn: n, Kind: "flow", Props: []string{prop}, Backend: "flow", Result: "unsat", Pos: s.posOf(fn.Pos()),
			Clause: "an array that a loop iteration stores into an output container and whose cells the loop writes is allocated inside that iteration (no buffer re-used across iterations)"}
		if len(viol) > 0 {
			ob.Result = "sat"
			ob.Raw = strings.Join(viol, "\n")
		}
		out = append(out, ob)
	}
	return out
}

func ownStrip(v ssa.Value) ssa.Value {
	for {
		switch x := v.(type) {
		case *ssa.TypeAssert:
			v = x.X
		case *ssa.MakeInterface:
			v = x.X
		case *ssa.ChangeType:
			v = x.X
		case *ssa.ChangeInterface:
			v = x.X
		case *ssa.Extract:
			if ta, ok := x.Tuple.(*ssa.TypeAssert); ok {
				v = ta.X
				continue
			}
			return v
		case *ssa.Slice:
			v = x.X // a re-slice of the same backing array
		default:
			return v
		}
	}
}

// ownOriginOf canonicalises the container argument of a walker call.
func ownOriginOf(v ssa.Value, depth int) ownOrigin {
	v = ownStrip(v)
	if depth > 6 {
		return ownOrigin{key: fmt.Sprintf("v:%s", v.Name())}
	}
	switch x := v.(type) {
	case *ssa.Parameter:
		return ownOrigin{key: "param:" + x.Name()}
	case *ssa.UnOp:
		// load: element of a slice, Value field of a map element, a local cell
		switch a := x.X.(type) {
		case *ssa.IndexAddr:
			root := ownOriginOf(a.X, depth+1)
			ix := "*" // a loop index: which element it is depends on the iteration of the loop that holds the load
			if c, ok := ownStrip(a.Index).(*ssa.Const); ok {
				ix = c.Value.String()
			}
			return root.with("elem("+root.key+")["+ix+"]", x)
		case *ssa.FieldAddr:
			el := ownStrip(a.X)
			root := ownElementRoot(el, depth+1)
			o := ownOrigin{key: fmt.Sprintf("field%d(%s)", a.Field, root.key), binds: append([]ssa.Instruction{}, root.binds...)}
			if in, ok := el.(ssa.Instruction); ok {
				o.binds = append(o.binds, in) // the element variable: re-bound by every iteration of its loop
			}
			o.binds = append(o.binds, x)
			return o
		}
		return ownOrigin{key: "load:" + x.Name(), binds: []ssa.Instruction{x}}
	case *ssa.Extract:
		if call, ok := x.Tuple.(*ssa.Call); ok {
			if cal := call.Common().StaticCallee(); cal != nil && ownMethodName(cal) == "Get" && len(call.Common().Args) >= 2 {
				root := ownOriginOf(call.Common().Args[0], depth+1)
				k := call.Common().Args[1]
				ks := k.Name()
				if c, ok := k.(*ssa.Const); ok {
					ks = c.Value.String()
				}
				return root.with("get("+root.key+","+ks+")", call)
			}
			return ownOrigin{key: "result:" + call.Name(), binds: []ssa.Instruction{call}}
		}
	case *ssa.Call:
		return ownOrigin{key: "result:" + x.Name(), binds: []ssa.Instruction{x}}
	case *ssa.Phi:
		return ownOrigin{key: "phi:" + x.Name(), binds: []ssa.Instruction{x}}
	case *ssa.Next:
		return ownOrigin{key: "next:" + x.Name(), binds: []ssa.Instruction{x}}
	}
	if in, ok := v.(ssa.Instruction); ok {
		return ownOrigin{key: "v:" + v.Name(), binds: []ssa.Instruction{in}}
	}
	return ownOrigin{key: "v:" + v.Name()}
}

// ownElementRoot: for an *Element reached by Front()/Next() iteration, the map that is iterated (with its own bindings).
func ownElementRoot(el ssa.Value, depth int) ownOrigin {
	seen := map[ssa.Value]bool{}
	var find func(v ssa.Value) *ownOrigin
	find = func(v ssa.Value) *ownOrigin {
		v = ownStrip(v)
		if seen[v] {
			return nil
		}
		seen[v] = true
		switch x := v.(type) {
		case *ssa.Phi:
			for _, e := range x.Edges {
				if r := find(e); r != nil {
					return r
				}
			}
		case *ssa.Call:
			if cal := x.Common().StaticCallee(); cal != nil && len(x.Common().Args) >= 1 {
				switch ownMethodName(cal) {
				case "Front", "Back":
					m := ownOriginOf(x.Common().Args[0], depth+1)
					return &ownOrigin{key: "iter(" + m.key + ")", binds: m.binds}
				case "Next", "Prev":
					return find(x.Common().Args[0])
				}
			}
		}
		return nil
	}
	if r := find(el); r != nil {
		return *r
	}
	return ownOrigin{key: "el:" + el.Name()}
}

type ownCall struct {
	in     ssa.CallInstruction
	walker string
	class  string
	org    ownOrigin
}

func (s *Session) ownCheck(fn *ssa.Function, ncalls *int) []string {
	var calls []ownCall
	for _, b := range fn.Blocks {
		for _, in := range b.Instrs {
			call, ok := in.(ssa.CallInstruction)
			if !ok {
				continue
			}
			cal := call.Common().StaticCallee()
			if cal == nil || cal.Pkg != s.g.pkg {
				continue
			}
			w, ok := ownWalkers[shortFnName(cal)]
			if !ok || w.param >= len(call.Common().Args) {
				continue
			}
			calls = append(calls, ownCall{in: call, walker: shortFnName(cal), class: w.class, org: ownOriginOf(call.Common().Args[w.param], 0)})
		}
	}
	*ncalls = len(calls)
	if os.Getenv("GOVC_OWN_DEBUG") != "" {
		for _, c := range calls {
			fmt.Fprintf(os.Stderr, "own: %s: %s(%s) at %s binds=%d\n", shortFnName(fn), c.walker, c.org.key, s.posOf(c.in.Pos()), len(c.org.binds))
		}
	}
	if len(calls) == 0 {
		return nil
	}
	// reachability between blocks with at least one edge (so that a block reaches itself only through a cycle)
	reach := map[*ssa.BasicBlock]map[*ssa.BasicBlock]bool{}
	for _, b := range fn.Blocks {
		r := map[*ssa.BasicBlock]bool{}
		stack := append([]*ssa.BasicBlock{}, b.Succs...)
		for len(stack) > 0 {
			x := stack[len(stack)-1]
			stack = stack[:len(stack)-1]
			if r[x] {
				continue
			}
			r[x] = true
			stack = append(stack, x.Succs...)
		}
		reach[b] = r
	}
	idx := func(in ssa.Instruction) int {
		for i, x := range in.Block().Instrs {
			if x == in {
				return i
			}
		}
		return -1
	}
	// after(a, b, binds): instruction b can execute after instruction a WITHOUT any of the binding instructions executing in
	// between (approximation over blocks: a path a -> b that does not enter a block holding one of them, or both in one block
	// in this order with none of them between)
	after := func(a, b ssa.Instruction, binds []ssa.Instruction) bool {
		inBlock := func(blk *ssa.BasicBlock, lo, hi int) bool { // some bind sits in blk strictly between positions lo and hi
			for _, bd := range binds {
				if bd.Block() == blk {
					if k := idx(bd); k > lo && k < hi {
						return true
					}
				}
			}
			return false
		}
		holds := func(blk *ssa.BasicBlock) bool { return inBlock(blk, -1, 1<<30) }
		if a.Block() == b.Block() && idx(a) < idx(b) && !inBlock(a.Block(), idx(a), idx(b)) {
			return true
		}
		if inBlock(a.Block(), idx(a), 1<<30) {
			return false // a binding follows a in its own block: whatever comes later sees the new binding
		}
		seen := map[*ssa.BasicBlock]bool{}
		stack := append([]*ssa.BasicBlock{}, a.Block().Succs...)
		for len(stack) > 0 {
			x := stack[len(stack)-1]
			stack = stack[:len(stack)-1]
			if seen[x] {
				continue
			}
			seen[x] = true
			if x == b.Block() {
				if !inBlock(x, -1, idx(b)) {
					return true
				}
				continue
			}
			if holds(x) {
				continue
			}
			stack = append(stack, x.Succs...)
		}
		return false
	}
	shared := func(x, y []ssa.Instruction) []ssa.Instruction {
		var out []ssa.Instruction
		for _, a := range x {
			for _, b := range y {
				if a == b {
					out = append(out, a)
				}
			}
		}
		return out
	}
	var out []string
	rep := map[string]bool{}
	for i, c1 := range calls {
		for j, c2 := range calls {
			if c1.class != c2.class {
				continue
			}
			// the same container, or a container and something inside it (a walker descends into everything below its argument)
			if c1.org.key != c2.org.key && !(i != j && (ownInside(c1.org.key, c2.org.key) || ownInside(c2.org.key, c1.org.key))) {
				continue
			}
			if i == j && !reach[c1.in.Block()][c1.in.Block()] {
				continue
			}
			// the two calls name the same container as long as none of the bindings they share is executed in between
			if !after(c1.in, c2.in, shared(c1.org.binds, c2.org.binds)) {
				continue
			}
			msg := fmt.Sprintf("%s: the container %s is handed to %s (%s) and, later on the same path, to %s (%s)", shortFnName(fn), c1.org.key, c1.walker, s.posOf(c1.in.Pos()), c2.walker, s.posOf(c2.in.Pos()))
			if !rep[msg] {
				rep[msg] = true
				out = append(out, msg)
			}
		}
	}
	return out
}

// ownMethodName: the method's name, also for an instance of a generic method
func ownMethodName(fn *ssa.Function) string {
	if o := fn.Origin(); o != nil {
		return o.Name()
	}
	return fn.Name()
}

// ownInside: origin `inner` is obtained from origin `outer` (an element, an entry, a lookup of it, at any depth)
func ownInside(inner, outer string) bool {
	return strings.Contains(inner, "("+outer+")") || strings.Contains(inner, "("+outer+",")
}

// ---- fresh-per-iteration: the second half of OWN --------------------------------------------------------------------------
// An array that a loop iteration stores into an output container (Set of an ordered map, store into an element of another array)
// and whose cells the loop writes must be allocated inside that iteration: otherwise a later iteration overwrites what an
// earlier one stored (e.g. a scratch buffer re-used across the facets of a $facet).

// ownCarried, when non-nil, collects the blocks of the phis the traversal went through (a value that reaches a store through
// the phi of a loop header may come from an earlier iteration of that loop)
var ownCarried map[*ssa.BasicBlock]bool

func ownAllocSites(v ssa.Value, seen map[ssa.Value]bool, out map[ssa.Instruction]bool) {
	v = ownStrip(v)
	if seen[v] {
		return
	}
	seen[v] = true
	switch x := v.(type) {
	case *ssa.MakeSlice:
		out[x] = true
	case *ssa.Phi:
		if ownCarried != nil {
			ownCarried[x.Block()] = true
		}
		for _, e := range x.Edges {
			ownAllocSites(e, seen, out)
		}
	case *ssa.Call:
		if b, ok := x.Common().Value.(*ssa.Builtin); ok && b.Name() == "append" && len(x.Common().Args) > 0 {
			out[x] = true // append may allocate
			ownAllocSites(x.Common().Args[0], seen, out)
		}
	case *ssa.UnOp:
		// a local slice variable kept in a cell: every store into that cell
		if a, ok := x.X.(*ssa.Alloc); ok {
			for _, r := range *a.Referrers() {
				if st, ok := r.(*ssa.Store); ok && st.Addr == a {
					ownAllocSites(st.Val, seen, out)
				}
			}
		}
	}
}

func (s *Session) ownFreshCheck(fn *ssa.Function, nstores *int) []string {
	reach := map[*ssa.BasicBlock]map[*ssa.BasicBlock]bool{}
	for _, b := range fn.Blocks {
		r := map[*ssa.BasicBlock]bool{}
		stack := append([]*ssa.BasicBlock{}, b.Succs...)
		for len(stack) > 0 {
			x := stack[len(stack)-1]
			stack = stack[:len(stack)-1]
			if r[x] {
				continue
			}
			r[x] = true
			stack = append(stack, x.Succs...)
		}
		reach[b] = r
	}
	// natural loops: for every back edge t -> h (h dominates t) the body is h plus every block that reaches t without passing h
	loopBody := map[*ssa.BasicBlock]map[*ssa.BasicBlock]bool{}
	for _, t := range fn.Blocks {
		for _, h := range t.Succs {
			if !h.Dominates(t) {
				continue
			}
			body := loopBody[h]
			if body == nil {
				body = map[*ssa.BasicBlock]bool{h: true}
				loopBody[h] = body
			}
			stack := []*ssa.BasicBlock{t}
			for len(stack) > 0 {
				x := stack[len(stack)-1]
				stack = stack[:len(stack)-1]
				if body[x] {
					continue
				}
				body[x] = true
				stack = append(stack, x.Preds...)
			}
		}
	}
	inLoop := func(h, b *ssa.BasicBlock) bool { return loopBody[h] != nil && loopBody[h][b] }
	_ = reach
	isSliceVal := func(v ssa.Value) bool {
		_, ok := ownStrip(v).Type().Underlying().(*types.Slice)
		return ok
	}
	// all stores into cells of arrays, by allocation site
	type cellWrite struct {
		in    ssa.Instruction
		sites map[ssa.Instruction]bool
	}
	var writes []cellWrite
	for _, b := range fn.Blocks {
		for _, in := range b.Instrs {
			if st, ok := in.(*ssa.Store); ok {
				if ia, ok := st.Addr.(*ssa.IndexAddr); ok {
					sites := map[ssa.Instruction]bool{}
					ownAllocSites(ia.X, map[ssa.Value]bool{}, sites)
					writes = append(writes, cellWrite{in, sites})
				}
			}
		}
	}
	var out []string
	check := func(at ssa.Instruction, v ssa.Value, what string) {
		if !isSliceVal(v) {
			return
		}
		*nstores++
		sites := map[ssa.Instruction]bool{}
		ownCarried = map[*ssa.BasicBlock]bool{}
		ownAllocSites(v, map[ssa.Value]bool{}, sites)
		carried := ownCarried
		ownCarried = nil
		for _, h := range fn.Blocks {
			if !inLoop(h, at.Block()) {
				continue
			}
			for site := range sites {
				if inLoop(h, site.Block()) && !carried[h] {
					continue
				}
				// allocated outside the loop that stores it: harmful if the loop writes its cells
				for _, w := range writes {
					if w.sites[site] && inLoop(h, w.in.Block()) {
						out = append(out, fmt.Sprintf("%s: the array %s at %s is not allocated afresh in every iteration of the loop that stores it (allocation at %s, carried over from an earlier iteration or made before the loop) and the loop writes its cells (%s): a later iteration overwrites what an earlier one stored",
							shortFnName(fn), what, s.posOf(at.Pos()), s.posOf(site.Pos()), s.posOf(w.in.Pos())))
						return
					}
				}
			}
		}
	}
	for _, b := range fn.Blocks {
		for _, in := range b.Instrs {
			switch x := in.(type) {
			case ssa.CallInstruction:
				if cal := x.Common().StaticCallee(); cal != nil && ownMethodName(cal) == "Set" && len(x.Common().Args) >= 3 {
					check(in, x.Common().Args[2], "stored by Set")
				}
			case *ssa.Store:
				if _, ok := x.Addr.(*ssa.IndexAddr); ok {
					check(in, x.Val, "stored into an element of another array")
				}
			}
		}
	}
	return out
}
