package main

// Replay files: every reported violation gets a JSON file naming the failed obligation, carrying the
// solver output and - when one is found - a concrete input that makes the real code violate the property.

import (
	"encoding/json"
	"fmt"
	"os"
	"path/filepath"
	"strings"
)

type ReplayFile struct {
	Property   string         `json:"property"`
	Obligation string         `json:"obligation"`
	Kind       string         `json:"kind"`
	Why        string         `json:"why"`
	Result     string         `json:"solver_result"`
	Pos        string         `json:"source_pos,omitempty"`
	Clause     string         `json:"clause,omitempty"`
	Solver     string         `json:"solver_output,omitempty"`
	SMT        string         `json:"smt_script_tail,omitempty"`
	Input      map[string]any `json:"input,omitempty"` // concrete failing input, when found
	Observed   string         `json:"observed,omitempty"`
	Spurious   []string       `json:"spurious_models,omitempty"`
	HowToRerun string         `json:"how_to_rerun"`
}

func writeReplay(s *Session, prop string, ob *Obligation, why string) string {
	dir := filepath.Join(verifDir, "replays")
	if r := os.Getenv("VERIF_REPO"); r != "" && r != "/repo" {
		// runs against a scratch copy (selftest, seeded changes) keep their replay files out of /verif
		dir = filepath.Join(os.TempDir(), "govc-scratch-replays")
	}
	os.MkdirAll(dir, 0o755)
	name := reUnsafe.ReplaceAllString(ob.Name, "_")
	if len(name) > 120 {
		name = name[:120]
	}
	path := filepath.Join(dir, prop+"-"+name+".json")
	rf := &ReplayFile{Property: prop, Obligation: ob.Name, Kind: ob.Kind, Why: why, Result: ob.Result, Pos: ob.Pos, Clause: ob.Clause,
		HowToRerun: "/verif/check --replay " + path}
	raw := ob.Raw
	if len(raw) > 20000 {
		raw = raw[:20000] + "\n...(truncated)"
	}
	rf.Solver = raw
	if ob.vc != nil && s != nil {
		txt := s.solver.Script(ob)
		if len(txt) > 12000 {
			txt = "...(truncated)\n" + txt[len(txt)-12000:]
		}
		rf.SMT = txt
	}
	if s != nil {
		if w := findWitness(s, prop, ob); w != nil {
			rf.Input = w.Input
			rf.Observed = w.Observed
			rf.Spurious = w.Spurious
		}
	}
	b, _ := json.MarshalIndent(rf, "", " ")
	os.WriteFile(path, b, 0o644)
	return path
}

func replayHasInput(path string) bool {
	b, err := os.ReadFile(path)
	if err != nil {
		return false
	}
	var rf ReplayFile
	if json.Unmarshal(b, &rf) != nil {
		return false
	}
	return len(rf.Input) > 0
}

type Witness struct {
	Input    map[string]any
	Observed string
	Spurious []string
}

func cmdReplay(file string) int {
	b, err := os.ReadFile(file)
	if err != nil {
		fmt.Fprintln(os.Stderr, err)
		return 2
	}
	var rf ReplayFile
	if err := json.Unmarshal(b, &rf); err != nil {
		fmt.Fprintln(os.Stderr, err)
		return 2
	}
	fmt.Printf("replay of %s: obligation %s (%s)\n", rf.Property, rf.Obligation, rf.Why)
	if len(rf.Input) == 0 {
		fmt.Println("the replay file carries no concrete input (no-failing-input-found); solver output:")
		fmt.Println(strings.TrimSpace(rf.Solver))
		return 1
	}
	obs, violated, err := runWitness(rf.Property, rf.Input)
	if err != nil {
		fmt.Println("replay could not run:", err)
		return 2
	}
	fmt.Println(obs)
	if violated {
		fmt.Printf("VIOLATION property=%s replay=%s\n", rf.Property, file)
		return 1
	}
	fmt.Println("the real code does not violate the property on this input any more")
	return 0
}
