package main

// Axiom schemas proved in Lean. /verif/lean/Schema.lean defines every accumulator predicate of the prelude as the inductive
// closure of its introduction rules (or by recursion on the length) over the base axioms om-*, and proves the elimination
// axioms; /verif/lean/MAP.json maps prelude axiom -> theorem and records the hash of the axiom's text at the time it was
// proved. For every mapped axiom that a solver was given in this run there is one obligation `schema/<axiom>` (back end
// "lean"): Schema.lean is accepted by lean (no error, no sorry), the theorem is in it, and the axiom text is unchanged.

import (
	"crypto/sha256"
	"encoding/json"
	"fmt"
	"os"
	"os/exec"
	"path/filepath"
	"regexp"
	"sort"
	"strings"
	"time"
)

type schemaMap struct {
	Proved map[string]struct {
		Theorem string `json:"theorem"`
		Sha     string `json:"sha"`
	} `json:"proved"`
}

var leanOnce struct {
	done bool
	ok   bool
	out  string
	ms   int64
	src  string
}

func runLean() {
	if leanOnce.done {
		return
	}
	leanOnce.done = true
	file := filepath.Join(verifDir, "lean", "Schema.lean")
	b, err := os.ReadFile(file)
	if err != nil {
		leanOnce.out = err.Error()
		return
	}
	leanOnce.src = string(b)
	if regexp.MustCompile(`\bsorry\b|\badmit\b|^\s*axiom\b`).MatchString(stripLeanComments(leanOnce.src)) {
		leanOnce.out = "Schema.lean contains sorry / admit / axiom"
		return
	}
	start := time.Now()
	cmd := exec.Command("lean", file)
	cmd.Dir = filepath.Dir(file)
	out, err := cmd.CombinedOutput()
	leanOnce.ms = time.Since(start).Milliseconds()
	leanOnce.out = string(out)
	leanOnce.ok = err == nil && !strings.Contains(leanOnce.out, "error")
}

func stripLeanComments(s string) string {
	s = regexp.MustCompile(`(?s)/-.*?-/`).ReplaceAllString(s, "")
	return regexp.MustCompile(`(?m)--.*$`).ReplaceAllString(s, "")
}

// schemaObligations is called after the SMT obligations were solved (it needs to know which axioms were used).
func (s *Session) schemaObligations(prop string, propObs []*Obligation) ([]*Obligation, []string) {
	used := map[string]bool{}
	s.solver.usedMu.Lock()
	for _, ob := range propObs {
		for k := range ob.Axioms {
			used[k] = true
		}
	}
	s.solver.usedMu.Unlock()
	var m schemaMap
	if b, err := os.ReadFile(filepath.Join(verifDir, "lean", "MAP.json")); err == nil {
		_ = json.Unmarshal(b, &m)
	}
	text := map[string]string{}
	for _, ax := range s.g.spec.Axioms {
		text[ax.Name] = ax.Raw
	}
	var obs []*Obligation
	var unproved []string
	names := sortedKeys(used)
	sort.Strings(names)
	for _, n := range names {
		e, ok := m.Proved[n]
		if !ok {
			unproved = append(unproved, n)
			continue
		}
		runLean()
		ob := &Obligation{Name: "schema/" + n, Fn: "prelude", Kind: "lemma", Props: []string{prop}, Backend: "lean", Result: "unsat", Ms: leanOnce.ms,
			Clause: "axiom " + n + " of prelude.vc is theorem Schema." + e.Theorem + " (lean/Schema.lean)"}
		sha := fmt.Sprintf("%x", sha256.Sum256([]byte(strings.TrimSpace(text[n]))))[:16]
		switch {
		case !leanOnce.ok:
			ob.Result, ob.Raw = "error", "lean does not accept Schema.lean: "+leanOnce.out
		case !regexp.MustCompile(`(?m)^theorem `+regexp.QuoteMeta(e.Theorem)+`\b`).MatchString(leanOnce.src):
			ob.Result, ob.Raw = "error", "theorem "+e.Theorem+" is not in Schema.lean"
		case sha != e.Sha:
			ob.Result, ob.Raw = "error", "the text of axiom "+n+" has changed since it was proved (sha "+sha+", recorded "+e.Sha+")"
		}
		obs = append(obs, ob)
	}
	return obs, unproved
}
