package main

// SMT-LIB emission and the solver race.

import (
	"bytes"
	"context"
	"fmt"
	"os"
	"os/exec"
	"path/filepath"
	"regexp"
	"sort"
	"strings"
	"sync"
	"time"
)

var builtinSyms = map[string]bool{
	"true": true, "false": true, "and": true, "or": true, "not": true, "=>": true, "=": true, "ite": true, "distinct": true,
	"+": true, "-": true, "*": true, "<": true, "<=": true, ">": true, ">=": true, "select": true, "store": true,
	"VNil": true, "VStr": true, "VNum": true, "VBool": true, "VF64": true, "VInt": true, "VMap": true, "VArr": true, "VOp": true, "VBy": true, "VOther": true,
	"sv": true, "nv": true, "bv": true, "fv": true, "iv": true, "mv": true, "av": true, "ov": true, "yv": true, "xty": true, "xv": true,
	"mkslice": true, "sbase": true, "soff": true, "slen_": true, "scap": true, "nilslice": true,
	"slen": true, "sbyte": true, "sconcat": true, "substr": true, "strarr": true, "mkbytes": true, "bstr": true, "bitand": true, "i2f": true, "runestr": true, "dyntype": true,
	"f64_0": true, "opq_zero": true,
}

const fixedPrelude = `(declare-sort Str 0)
(declare-sort F64 0)
(declare-sort Opq 0)
(declare-sort Bytes 0)
(declare-datatypes ((Slice 0)) (((mkslice (sbase Int) (soff Int) (slen_ Int) (scap Int)))))
(declare-datatypes ((Val 0)) (((VNil) (VStr (sv Str)) (VNum (nv Str)) (VBool (bv Bool)) (VF64 (fv F64)) (VInt (iv Int)) (VMap (mv Int)) (VArr (av Slice)) (VOp (ov Int)) (VBy (yv Bytes)) (VOther (xty Int) (xv Int)))))
(define-fun nilslice () Slice (mkslice 0 0 0 0))
(declare-fun slen (Str) Int)
(declare-fun sbyte (Str Int) Int)
(declare-fun sconcat (Str Str) Str)
(declare-fun substr (Str Int Int) Str)
(declare-fun strarr (Str) (Array Int Int))
(declare-fun mkbytes ((Array Int Int) Int Int) Bytes)
(declare-fun bstr (Bytes) Str)
(declare-fun bitand (Int Int) Int)
(declare-fun i2f (Int) F64)
(declare-fun runestr (Int) Str)
(declare-fun dyntype (Int) Int)
(declare-const f64_0 F64)
(declare-const opq_zero Opq)
`

var reNum = regexp.MustCompile(`^[0-9]+$`)

type compiledAxiom struct {
	decl     *AxiomDecl
	smt      string
	triggers [][]string // per alternative: the function symbols that must all be present
	symbols  map[string]bool
}

// compileAxioms translates the axiom schemas of the prelude once per run.
func (g *Gen) compileAxioms() ([]*compiledAxiom, error) {
	var out []*compiledAxiom
	for _, ax := range g.spec.Axioms {
		env := &Env{g: g, vars: map[string]*Term{}, where: ax.Line}
		var binders []string
		for i, v := range ax.Vars {
			env.vars[v] = Const("?"+v, ax.Sorts[i])
			binders = append(binders, fmt.Sprintf("(?%s %s)", v, ax.Sorts[i]))
		}
		env.st = NewState()
		body, err := env.Parse(ax.Body)
		if err != nil {
			return nil, err
		}
		if body.Sort != SBool {
			return nil, fmt.Errorf("%s: axiom body is not boolean", ax.Line)
		}
		ca := &compiledAxiom{decl: ax, symbols: map[string]bool{}}
		body.symbols(ca.symbols)
		if len(ax.Vars) == 0 {
			ca.smt = body.String()
			ca.triggers = [][]string{{}}
			// ground axiom: relevant when any of its function symbols occurs
			out = append(out, ca)
			continue
		}
		var pats []string
		for _, alt := range ax.Triggers {
			var terms []string
			syms := map[string]bool{}
			for _, p := range splitTop(alt, ',') {
				t, err := env.Parse(p)
				if err != nil {
					return nil, err
				}
				terms = append(terms, t.String())
				t.symbols(syms)
			}
			var need []string
			for s := range syms {
				if !strings.HasPrefix(s, "?") && !builtinLogic(s) {
					need = append(need, s)
				}
			}
			sort.Strings(need)
			ca.triggers = append(ca.triggers, need)
			pats = append(pats, ":pattern ("+strings.Join(terms, " ")+")")
		}
		ca.smt = fmt.Sprintf("(forall (%s) (! %s %s))", strings.Join(binders, " "), body.String(), strings.Join(pats, " "))
		out = append(out, ca)
	}
	return out, nil
}

func builtinLogic(s string) bool {
	switch s {
	case "true", "false", "and", "or", "not", "=>", "=", "ite", "+", "-", "*", "<", "<=", ">", ">=", "select", "store", "distinct":
		return true
	}
	return reNum.MatchString(s)
}

type Solver struct {
	g      *Gen
	axioms []*compiledAxiom
	tmpdir string
	usedMu sync.Mutex
	used   map[string]bool // names of the axiom schemas that were handed to a solver in this run
}

func NewSolver(g *Gen) (*Solver, error) {
	ax, err := g.compileAxioms()
	if err != nil {
		return nil, err
	}
	dir, err := os.MkdirTemp("", "govc")
	if err != nil {
		return nil, err
	}
	return &Solver{g: g, axioms: ax, tmpdir: dir}, nil
}

func (s *Solver) Close() { os.RemoveAll(s.tmpdir) }

// Script renders the SMT-LIB text for one obligation (without solver-specific options).
func (s *Solver) Script(ob *Obligation) string {
	g := s.g
	vc := ob.vc
	neg := And(ob.Guard, Not(ob.Goal))
	forms := sliceLog(vc.log[:ob.Cut], neg)
	forms = append(forms, neg)
	syms := map[string]bool{}
	consts := map[string]Sort{}
	var walk func(t *Term)
	walk = func(t *Term) {
		syms[t.Op] = true
		if len(t.Args) == 0 && !builtinSyms[t.Op] && !reNum.MatchString(t.Op) && !strings.HasPrefix(t.Op, "?") && !strings.HasPrefix(t.Op, "lit!") {
			if _, isFun := g.spec.Funs[t.Op]; !isFun {
				if _, isAuto := g.autoFuns[t.Op]; !isAuto {
					if old, ok := consts[t.Op]; ok && old != t.Sort {
						panic(fmt.Sprintf("constant %s used with sorts %s and %s", t.Op, old, t.Sort))
					}
					consts[t.Op] = t.Sort
				}
			}
		}
		for _, a := range t.Args {
			walk(a)
		}
	}
	for _, f := range forms {
		walk(f)
	}
	// relevant axioms (fixpoint over symbols)
	include := make([]bool, len(s.axioms))
	for changed := true; changed; {
		changed = false
		for i, ax := range s.axioms {
			if include[i] {
				continue
			}
			rel := false
			for _, alt := range ax.triggers {
				all := true
				for _, need := range alt {
					if !syms[need] {
						all = false
						break
					}
				}
				if all && len(alt) > 0 {
					rel = true
				}
				if len(alt) == 0 { // ground axiom: relevant if it shares a non-builtin symbol
					for sy := range ax.symbols {
						if syms[sy] && !builtinLogic(sy) && !builtinSyms[sy] {
							rel = true
						}
					}
				}
			}
			if rel {
				include[i] = true
				changed = true
				s.usedMu.Lock()
				if s.used == nil {
					s.used = map[string]bool{}
				}
				s.used[ax.decl.Name] = true
				if ob.Axioms == nil {
					ob.Axioms = map[string]bool{}
				}
				ob.Axioms[ax.decl.Name] = true
				s.usedMu.Unlock()
				for sy := range ax.symbols {
					if !syms[sy] {
						syms[sy] = true
					}
				}
			}
		}
	}
	var b strings.Builder
	b.WriteString(fixedPrelude)
	for _, so := range g.spec.Sorts {
		fmt.Fprintf(&b, "(declare-sort %s 0)\n", so)
	}
	declFun := func(fd *FunDecl) {
		var as []string
		for _, a := range fd.Args {
			as = append(as, string(a))
		}
		fmt.Fprintf(&b, "(declare-fun %s (%s) %s)\n", fd.Name, strings.Join(as, " "), fd.Ret)
	}
	for _, n := range g.spec.FunOrder {
		declFun(g.spec.Funs[n])
	}
	for _, n := range g.autoOrder {
		declFun(g.autoFuns[n])
	}
	// string literals
	if len(g.litList) > 0 {
		for i := range g.litList {
			fmt.Fprintf(&b, "(declare-const lit!%d Str)\n", i)
		}
		if len(g.litList) > 1 {
			b.WriteString("(assert (distinct")
			for i := range g.litList {
				fmt.Fprintf(&b, " lit!%d", i)
			}
			b.WriteString("))\n")
		}
		for i, l := range g.litList {
			fmt.Fprintf(&b, "(assert (= (slen lit!%d) %d)) ; %q\n", i, len(l), l)
			lim := len(l)
			if lim > 12 {
				lim = 1
			}
			for j := 0; j < lim; j++ {
				fmt.Fprintf(&b, "(assert (= (sbyte lit!%d %d) %d))\n", i, j, l[j])
			}
		}
	}
	b.WriteString("(assert (forall ((?s Str)) (! (>= (slen ?s) 0) :pattern ((slen ?s)))))\n")
	for _, ax := range g.autoAxioms {
		b.WriteString("(assert " + ax + ")\n")
	}
	for _, n := range sortedKeys(consts) {
		fmt.Fprintf(&b, "(declare-const %s %s)\n", n, consts[n])
	}
	for i, ax := range s.axioms {
		if include[i] {
			fmt.Fprintf(&b, "(assert %s) ; axiom %s\n", ax.smt, ax.decl.Name)
		}
	}
	for _, f := range forms[:len(forms)-1] {
		fmt.Fprintf(&b, "(assert %s)\n", f)
	}
	fmt.Fprintf(&b, "; negated obligation %s\n(assert %s)\n", ob.Name, neg)
	return b.String()
}

type solverSpec struct {
	name string
	cmd  func(file string, timeout int) []string
	head string
}

var solvers = []solverSpec{
	{"z3-new", func(f string, t int) []string { return []string{"z3-new", fmt.Sprintf("-T:%d", t), f} }, "(set-option :smt.mbqi false)\n(set-option :auto_config false)\n(set-option :model true)\n(push)\n"},
	{"z3", func(f string, t int) []string { return []string{"z3", fmt.Sprintf("-T:%d", t), f} }, "(set-option :smt.mbqi false)\n(set-option :auto_config false)\n(set-option :model true)\n(push)\n"},
	{"cvc5", func(f string, t int) []string {
		return []string{"cvc5", "--produce-models", fmt.Sprintf("--tlimit=%d", t*1000), f}
	}, "(set-logic ALL)\n"},
}

func runSolver(sp solverSpec, dir, base, script string, timeout int) (string, string, int64) {
	file := filepath.Join(dir, base+"."+sp.name+".smt2")
	text := sp.head + script + "(check-sat)\n(get-info :reason-unknown)\n(get-model)\n"
	if err := os.WriteFile(file, []byte(text), 0o644); err != nil {
		return "error", err.Error(), 0
	}
	defer os.Remove(file)
	ctx, cancel := context.WithTimeout(context.Background(), time.Duration(timeout+5)*time.Second)
	defer cancel()
	args := sp.cmd(file, timeout)
	start := time.Now()
	cmd := exec.CommandContext(ctx, args[0], args[1:]...)
	var out bytes.Buffer
	cmd.Stdout = &out
	cmd.Stderr = &out
	_ = cmd.Run()
	ms := time.Since(start).Milliseconds()
	txt := out.String()
	first := strings.TrimSpace(strings.SplitN(txt, "\n", 2)[0])
	switch first {
	case "unsat", "sat":
		return first, txt, ms
	case "unknown":
		if strings.Contains(txt, "incomplete") {
			return "unknown", txt, ms
		}
		return "timeout", txt, ms
	case "timeout":
		return "timeout", txt, ms
	}
	if ctx.Err() != nil {
		return "timeout", txt, ms
	}
	return "error", txt, ms
}

// Solve discharges the obligations in parallel. quick: z3-new first, then the others on anything but unsat.
func (s *Solver) Solve(obs []*Obligation, thorough bool, timeout int, jobs int) {
	var wg sync.WaitGroup
	sem := make(chan struct{}, jobs)
	for i, ob := range obs {
		if ob.Result != "" || ob.vc == nil {
			continue // decided by a non-SMT back end
		}
		wg.Add(1)
		go func(i int, ob *Obligation) {
			defer wg.Done()
			sem <- struct{}{}
			defer func() { <-sem }()
			script := s.Script(ob)
			base := fmt.Sprintf("ob%d", i)
			if thorough {
				results := map[string]string{}
				var total int64
				decided := false
				for _, sp := range solvers {
					to := timeout
					if decided && to > 6 {
						// one solver has discharged the obligation: the others are asked for a second opinion (a `sat` from any of
						// them is a disagreement), with a shorter budget
						to = 6
					}
					r, raw, ms := runSolver(sp, s.tmpdir, base, script, to)
					results[sp.name] = r
					if r == "unsat" {
						decided = true
					}
					total += ms
					if r == "sat" || r == "unknown" {
						if ob.Raw == "" {
							ob.Raw = raw
							ob.Model = raw
						}
					}
				}
				ob.Ms = total
				nUnsat, nSat := 0, 0
				var who []string
				for _, sp := range solvers {
					switch results[sp.name] {
					case "unsat":
						nUnsat++
						who = append(who, sp.name)
					case "sat":
						nSat++
					}
				}
				switch {
				case nUnsat > 0 && nSat > 0:
					ob.Result = "error"
					ob.Raw = fmt.Sprintf("solver disagreement: %v", results)
				case nUnsat > 0:
					ob.Result = "unsat"
					ob.Backend = strings.Join(who, "+")
				case nSat > 0:
					ob.Result = "sat"
				default:
					ob.Result = results["z3-new"]
				}
				return
			}
			// quick: z3-new first; on anything but unsat/sat race the other two
			r0, raw0, ms0 := runSolver(solvers[0], s.tmpdir, base, script, timeout)
			ob.Ms += ms0
			for retry := 0; r0 == "error" && retry < 2; retry++ {
				// a solver process that dies (e.g. under memory pressure with many parallel queries) is retried, never trusted
				time.Sleep(200 * time.Millisecond)
				r0, raw0, ms0 = runSolver(solvers[0], s.tmpdir, fmt.Sprintf("%s_r%d", base, retry), script, timeout)
				ob.Ms += ms0
			}
			if r0 == "unsat" {
				ob.Result, ob.Backend = "unsat", solvers[0].name
				return
			}
			if r0 == "sat" {
				ob.Result, ob.Backend, ob.Raw, ob.Model = "sat", solvers[0].name, raw0, raw0
				return
			}
			type res struct {
				name, r, raw string
				ms           int64
			}
			ch := make(chan res, 2)
			fb := timeout
			if fb > 6 {
				fb = 6
			}
			for _, sp := range solvers[1:] {
				go func(sp solverSpec) {
					r, raw, ms := runSolver(sp, s.tmpdir, base, script, fb)
					ch <- res{sp.name, r, raw, ms}
				}(sp)
			}
			for k := 0; k < 2; k++ {
				rr := <-ch
				ob.Ms += rr.ms
				if rr.r == "unsat" && ob.Result != "unsat" {
					ob.Result, ob.Backend, ob.Raw = "unsat", rr.name, ""
				}
			}
			if ob.Result == "unsat" {
				return
			}
			ob.Result, ob.Raw, ob.Model = r0, raw0, raw0
			if ob.Raw == "" {
				ob.Raw = "(no solver output)"
			}
		}(i, ob)
	}
	wg.Wait()
}

// ---- cone-of-influence slicing ---------------------------------------------------------------------
// Dropping hypotheses is always sound (it can only make an obligation harder to prove). The log is mostly
// definitional (c = term), so a backward slice from the negated goal removes the state of everything the
// obligation does not talk about and keeps the solvers fast on the long closure of main.

func isConstSym(t *Term) bool {
	return len(t.Args) == 0 && !builtinSyms[t.Op] && !reNum.MatchString(t.Op) && !strings.HasPrefix(t.Op, "?") && !strings.HasPrefix(t.Op, "lit!")
}

func constSyms(t *Term, into map[string]bool) {
	if isConstSym(t) {
		into[t.Op] = true
	}
	for _, a := range t.Args {
		constSyms(a, into)
	}
}

func isHub(sym string) bool {
	return strings.HasPrefix(sym, "heapTop") || strings.HasPrefix(sym, "ext_") || strings.Contains(sym, "ref_") || sym == "emptyset" || sym == "seqEmpty" || sym == "noBytes"
}

type logInfo struct {
	def   string          // defined constant, for "c = term" items
	trig  map[string]bool // constants that make the item relevant
	all   map[string]bool // every constant in the item
	taken bool
}

var noSlice bool

func sliceLog(log []*Term, neg *Term) []*Term {
	if noSlice {
		return log
	}
	infos := make([]*logInfo, len(log))
	for i, f := range log {
		li := &logInfo{trig: map[string]bool{}, all: map[string]bool{}}
		constSyms(f, li.all)
		switch {
		case f.Op == "=" && len(f.Args) == 2 && isConstSym(f.Args[0]) && !isHub(f.Args[0].Op):
			li.def = f.Args[0].Op
			li.trig[li.def] = true
		case f.Op == "=>" && len(f.Args) == 2:
			constSyms(f.Args[1], li.trig)
		default:
			constSyms(f, li.trig)
		}
		hubs := map[string]bool{}
		for k := range li.trig {
			if isHub(k) {
				hubs[k] = true
				delete(li.trig, k)
			}
		}
		if len(li.trig) == 0 {
			// facts that speak about hub symbols only (ordering of heap tops etc.) are cheap: keep them reachable
			li.trig = hubs
		}
		infos[i] = li
	}
	rel := map[string]bool{}
	constSyms(neg, rel)
	for changed := true; changed; {
		changed = false
		for _, li := range infos {
			if li.taken {
				continue
			}
			hit := false
			for k := range li.trig {
				if rel[k] {
					hit = true
					break
				}
			}
			if !hit {
				continue
			}
			li.taken = true
			changed = true
			for k := range li.all {
				rel[k] = true
			}
		}
	}
	var out []*Term
	for i, li := range infos {
		if li.taken {
			out = append(out, log[i])
		}
	}
	return out
}

// SolveCanaries: a canary only has to be "not unsat"; z3-new alone decides.
func (s *Solver) SolveCanaries(obs []*Obligation, jobs int) {
	var wg sync.WaitGroup
	sem := make(chan struct{}, jobs)
	for i, ob := range obs {
		wg.Add(1)
		go func(i int, ob *Obligation) {
			defer wg.Done()
			sem <- struct{}{}
			defer func() { <-sem }()
			r, raw, ms := runSolver(solvers[0], s.tmpdir, fmt.Sprintf("canary%d", i), s.Script(ob), 5)
			ob.Result, ob.Raw, ob.Ms, ob.Backend = r, raw, ms, solvers[0].name
		}(i, ob)
	}
	wg.Wait()
}
