package main

// Parsing of the specification files:
//   /repo/src/contracts_verif.go  (contracts of package-main functions, "//@ " comment lines, build tag verif)
//   /verif/spec/externals.vc      (assumed contracts of functions outside package main)
//   /verif/spec/prelude.vc        (sorts, spec functions, ghost state, axiom schemas with triggers)
//
// Line-oriented grammar (indentation is free):
//   sort NAME
//   fun NAME(S1, S2, ...) S
//   ghost NAME SORT                       global ghost component
//   const NAME SORT = <int>|"<string>"
//   axiom NAME: forall x S, y T :: trigger e1, e2 :: <expr>        (one line)
//   func NAME[(p1, p2, ...)[ (r1, r2)]]   starts a contract block
//     props C01 C02
//     pure | terminal | may_panic | trusted
//     requires [label] [{Cxx,..}]: expr
//     ensures  [label] [{Cxx,..}]: expr
//     exit_requires [label] [{Cxx,..}]: expr
//     loop N invariant [label] [{..}]: expr
//     assigns comp1, comp2, ...
//     havoc_cell p                       (callee may write through pointer argument p)
//     local NAME := expr-at-entry         (ghost definitions; evaluated in entry state)
//     sets GHOST := expr                  (ghost update performed by a call, evaluated in pre-state with results bound)

import (
	"bufio"
	"fmt"
	"os"
	"regexp"
	"strconv"
	"strings"
)

type Clause struct {
	Kind  string // requires ensures exit_requires invariant sets
	Label string
	Props []string
	Expr  string
	Loop  int    // for invariant
	Var   string // for sets / local
	Line  string // file:line
}

type Contract struct {
	Name       string
	Params     []string
	Results    []string
	Props      []string
	Pure       bool
	Terminal   bool
	MayPanic   bool
	Trusted    bool // body not verified (external or explicitly trusted)
	External   bool
	Requires   []*Clause
	Ensures    []*Clause
	ExitReq    []*Clause
	Invariants map[int][]*Clause
	Mandatory  map[int]bool      // loop N mandatory: every return of the function is reached through this loop
	Cases      map[int][]*Clause // case splits of the loop-preservation obligations (evaluated over the finished iteration)
	Each       map[int][]*Clause // per-iteration clauses: asserted at every back edge, never assumed at the header
	Defines    []*Clause         // defines ATOM(args): formula  (Var holds the atom expression)
	Sets       []*Clause
	Locals     []*Clause
	PostLocals []*Clause // ghost definitions evaluated in the post-state (results bound)
	Assigns    []string
	HavocCells []string
	Source     string
	HasAssigns bool
	SafetyProps []string
	TrustedEns []*Clause
	Allocs     []string
	AtCalls    []*Clause // Var holds the callee name
	AssumeAfter []*Clause // explicit, listed assumptions about the result of one call site (Var: callee or callee#n)
	Arith      bool
}

type FunDecl struct {
	Name string
	Args []Sort
	Ret  Sort
}

type ConstDecl struct {
	Name string
	Sort Sort
	Int  int64
	Str  string
}

type AxiomDecl struct {
	Lemma    bool     // proved from the axioms instead of assumed
	Props    []string
	Name     string
	Vars     []string
	Sorts    []Sort
	Triggers []string
	Body     string
	Line     string
	Raw      string // the declaration as written
}

type Spec struct {
	Sorts     []string
	Funs      map[string]*FunDecl
	FunOrder  []string
	Ghosts    map[string]Sort
	GhostOrd  []string
	Consts    map[string]*ConstDecl
	Axioms    []*AxiomDecl
	Lemmas    []*AxiomDecl
	Contracts map[string]*Contract
	Files     []string
}

func NewSpec() *Spec {
	return &Spec{Funs: map[string]*FunDecl{}, Ghosts: map[string]Sort{}, Consts: map[string]*ConstDecl{}, Contracts: map[string]*Contract{}}
}

var reFuncHdr = regexp.MustCompile(`^func\s+(\S+?)(\(([^)]*)\))?(\s*\(([^)]*)\))?\s*$`)
var reClause = regexp.MustCompile(`^(requires|ensures|trusted_ensures|exit_requires|invariant)\s*([A-Za-z0-9_.\-@#$<>=+]*)?\s*(\{[^}]*\})?\s*:\s*(.*)$`)

func parseSort(s string) Sort {
	s = strings.TrimSpace(s)
	if strings.HasPrefix(s, "[") { // [I]E  -> (Array I E)
		end := strings.Index(s, "]")
		return ArrSort(parseSort(s[1:end]), parseSort(s[end+1:]))
	}
	return Sort(s)
}

func splitTop(s string, sep byte) []string {
	var out []string
	depth := 0
	inStr := false
	start := 0
	for i := 0; i < len(s); i++ {
		c := s[i]
		if inStr {
			if c == '\\' {
				i++
			} else if c == '"' {
				inStr = false
			}
			continue
		}
		switch c {
		case '"':
			inStr = true
		case '(', '[':
			depth++
		case ')', ']':
			depth--
		default:
			if c == sep && depth == 0 {
				out = append(out, strings.TrimSpace(s[start:i]))
				start = i + 1
			}
		}
	}
	if strings.TrimSpace(s[start:]) != "" {
		out = append(out, strings.TrimSpace(s[start:]))
	}
	return out
}

// LoadFile parses one spec file. If prefix != "" only lines starting with the prefix are considered.
func (sp *Spec) LoadFile(path, prefix string, external bool) error {
	f, err := os.Open(path)
	if err != nil {
		return err
	}
	defer f.Close()
	sp.Files = append(sp.Files, path)
	sc := bufio.NewScanner(f)
	sc.Buffer(make([]byte, 1<<20), 1<<20)
	var cur *Contract
	ln := 0
	var pending string
	for sc.Scan() {
		ln++
		line := sc.Text()
		if prefix != "" {
			t := strings.TrimSpace(line)
			if !strings.HasPrefix(t, prefix) {
				continue
			}
			line = strings.TrimPrefix(t, prefix)
		}
		if i := strings.Index(line, " ## "); i >= 0 {
			line = line[:i]
		}
		line = strings.TrimSpace(line)
		if line == "" || strings.HasPrefix(line, "#") {
			continue
		}
		// continuation lines end with a backslash
		if strings.HasSuffix(line, "\\") {
			pending += strings.TrimSuffix(line, "\\") + " "
			continue
		}
		line = pending + line
		pending = ""
		where := fmt.Sprintf("%s:%d", path, ln)
		fields := strings.Fields(line)
		switch fields[0] {
		case "sort":
			sp.Sorts = append(sp.Sorts, fields[1])
			continue
		case "fun":
			rest := strings.TrimSpace(strings.TrimPrefix(line, "fun"))
			op := strings.Index(rest, "(")
			cl := strings.LastIndex(rest, ")")
			if op < 0 || cl < 0 {
				return fmt.Errorf("%s: bad fun decl", where)
			}
			fd := &FunDecl{Name: strings.TrimSpace(rest[:op]), Ret: parseSort(rest[cl+1:])}
			for _, a := range splitTop(rest[op+1:cl], ',') {
				fd.Args = append(fd.Args, parseSort(a))
			}
			if _, dup := sp.Funs[fd.Name]; !dup {
				sp.FunOrder = append(sp.FunOrder, fd.Name)
			}
			sp.Funs[fd.Name] = fd
			continue
		case "ghost":
			if cur == nil || len(fields) == 3 {
				if _, dup := sp.Ghosts[fields[1]]; !dup {
					sp.GhostOrd = append(sp.GhostOrd, fields[1])
				}
				sp.Ghosts[fields[1]] = parseSort(strings.Join(fields[2:], " "))
				continue
			}
		case "const":
			// const NAME SORT = value
			eq := strings.Index(line, "=")
			if eq < 0 || len(fields) < 4 {
				return fmt.Errorf("%s: bad const decl", where)
			}
			cd := &ConstDecl{Name: fields[1], Sort: parseSort(fields[2])}
			val := strings.TrimSpace(line[eq+1:])
			if strings.HasPrefix(val, "\"") {
				s, err := strconv.Unquote(val)
				if err != nil {
					return fmt.Errorf("%s: %v", where, err)
				}
				cd.Str = s
			} else {
				n, err := strconv.ParseInt(val, 0, 64)
				if err != nil {
					return fmt.Errorf("%s: %v", where, err)
				}
				cd.Int = n
			}
			sp.Consts[cd.Name] = cd
			continue
		case "axiom", "lemma":
			rest := strings.TrimSpace(strings.TrimPrefix(line, fields[0]))
			colon := strings.Index(rest, ":")
			name := strings.TrimSpace(rest[:colon])
			var lprops []string
			if i := strings.Index(name, "{"); i >= 0 {
				lprops = parseProps(name[i:])
				name = strings.TrimSpace(name[:i])
			}
			parts := strings.Split(rest[colon+1:], "::")
			ax := &AxiomDecl{Name: name, Line: where, Lemma: fields[0] == "lemma", Props: lprops, Raw: strings.TrimSpace(line)}
			switch len(parts) {
			case 1:
				ax.Body = strings.TrimSpace(parts[0])
			case 3:
				q := strings.TrimSpace(parts[0])
				q = strings.TrimPrefix(q, "forall")
				for _, v := range splitTop(q, ',') {
					vf := strings.Fields(v)
					if len(vf) < 2 {
						return fmt.Errorf("%s: bad quantifier variable %q", where, v)
					}
					ax.Vars = append(ax.Vars, vf[0])
					ax.Sorts = append(ax.Sorts, parseSort(strings.Join(vf[1:], " ")))
				}
				tr := strings.TrimSpace(parts[1])
				tr = strings.TrimPrefix(tr, "trigger")
				// multiple alternative triggers separated by ';', multi-patterns by ','
				for _, alt := range splitTop(tr, ';') {
					ax.Triggers = append(ax.Triggers, alt)
				}
				ax.Body = strings.TrimSpace(parts[2])
			default:
				return fmt.Errorf("%s: axiom needs 'forall .. :: trigger .. :: body' or a ground body", where)
			}
			if ax.Lemma {
				sp.Lemmas = append(sp.Lemmas, ax)
			} else {
				sp.Axioms = append(sp.Axioms, ax)
			}
			continue
		case "func":
			m := reFuncHdr.FindStringSubmatch(line)
			if m == nil {
				return fmt.Errorf("%s: bad func header %q", where, line)
			}
			cur = &Contract{Name: m[1], Invariants: map[int][]*Clause{}, Each: map[int][]*Clause{}, Cases: map[int][]*Clause{}, Mandatory: map[int]bool{}, External: external, Trusted: external, Source: where}
			if m[2] != "" {
				cur.Params = splitTop(m[3], ',')
			}
			if m[4] != "" {
				cur.Results = splitTop(m[5], ',')
			}
			if _, dup := sp.Contracts[cur.Name]; dup {
				return fmt.Errorf("%s: duplicate contract for %s", where, cur.Name)
			}
			sp.Contracts[cur.Name] = cur
			continue
		}
		if cur == nil {
			return fmt.Errorf("%s: clause outside a func block: %q", where, line)
		}
		switch strings.TrimSuffix(fields[0], ":") {
		case "props":
			cur.Props = append(cur.Props, fields[1:]...)
		case "pure":
			cur.Pure = true
		case "terminal":
			cur.Terminal = true
		case "may_panic":
			cur.MayPanic = true
		case "trusted":
			cur.Trusted = true
		case "safety":
			cur.SafetyProps = append(cur.SafetyProps, fields[1:]...)
		case "arith":
			cur.Arith = true
		case "assigns":
			cur.HasAssigns = true
			for _, a := range splitTop(strings.TrimSpace(strings.TrimPrefix(line, "assigns")), ',') {
				if a != "nothing" {
					cur.Assigns = append(cur.Assigns, a)
				}
			}
		case "allocs":
			cur.HasAssigns = true
			for _, a := range splitTop(strings.TrimSpace(strings.TrimPrefix(line, "allocs")), ',') {
				cur.Allocs = append(cur.Allocs, a)
			}
		case "havoc_cell":
			cur.HavocCells = append(cur.HavocCells, fields[1:]...)
		case "post_local":
			rest := strings.TrimSpace(strings.TrimPrefix(line, fields[0]))
			i := strings.Index(rest, ":=")
			if i < 0 {
				return fmt.Errorf("%s: expected NAME := expr", where)
			}
			cur.PostLocals = append(cur.PostLocals, &Clause{Kind: "post_local", Var: strings.TrimSpace(rest[:i]), Expr: strings.TrimSpace(rest[i+2:]), Line: where})
		case "local", "sets":
			rest := strings.TrimSpace(strings.TrimPrefix(line, fields[0]))
			i := strings.Index(rest, ":=")
			if i < 0 {
				return fmt.Errorf("%s: expected NAME := expr", where)
			}
			c := &Clause{Kind: fields[0], Var: strings.TrimSpace(rest[:i]), Expr: strings.TrimSpace(rest[i+2:]), Line: where}
			if fields[0] == "local" {
				cur.Locals = append(cur.Locals, c)
			} else {
				cur.Sets = append(cur.Sets, c)
			}
		case "loop":
			n, err := strconv.Atoi(fields[1])
			if err != nil {
				return fmt.Errorf("%s: loop ordinal: %v", where, err)
			}
			rest := strings.TrimSpace(strings.Join(fields[2:], " "))
			if rest == "mandatory" {
				cur.Mandatory[n] = true
				continue
			}
			if strings.HasPrefix(rest, "case ") {
				// loop N case NAME: cond
				cr := strings.TrimSpace(strings.TrimPrefix(rest, "case "))
				ci := strings.Index(cr, ":")
				if ci < 0 {
					return fmt.Errorf("%s: expected 'loop N case NAME: cond'", where)
				}
				cur.Cases[n] = append(cur.Cases[n], &Clause{Kind: "case", Label: strings.TrimSpace(cr[:ci]), Expr: strings.TrimSpace(cr[ci+1:]), Loop: n, Line: where})
				continue
			}
			isEach := false
			if strings.HasPrefix(rest, "each") {
				isEach = true
				rest = "invariant" + strings.TrimPrefix(rest, "each")
			}
			m := reClause.FindStringSubmatch(rest)
			if m == nil || m[1] != "invariant" {
				return fmt.Errorf("%s: expected 'loop N invariant|each [label] [{props}]: expr'", where)
			}
			c := &Clause{Kind: "invariant", Label: m[2], Props: parseProps(m[3]), Expr: m[4], Loop: n, Line: where}
			if isEach {
				c.Kind = "each"
				cur.Each[n] = append(cur.Each[n], c)
			} else {
				cur.Invariants[n] = append(cur.Invariants[n], c)
			}
		case "at_call":
			// at_call CALLEE [label] [{props}]: expr   -- asserted in the caller's state at every call to CALLEE
			rest := strings.TrimSpace(strings.TrimPrefix(line, "at_call"))
			sp1 := strings.IndexAny(rest, " \t")
			if sp1 < 0 {
				return fmt.Errorf("%s: bad at_call", where)
			}
			callee := rest[:sp1]
			m := reClause.FindStringSubmatch("requires " + strings.TrimSpace(rest[sp1:]))
			if m == nil {
				return fmt.Errorf("%s: bad at_call clause", where)
			}
			cur.AtCalls = append(cur.AtCalls, &Clause{Kind: "at_call", Var: callee, Label: m[2], Props: parseProps(m[3]), Expr: m[4], Line: where})
		case "defines":
			// defines [label] [{props}]: ATOM(args) := formula
			m := reClause.FindStringSubmatch("requires " + strings.TrimSpace(strings.TrimPrefix(line, "defines")))
			if m == nil {
				return fmt.Errorf("%s: bad defines clause", where)
			}
			i := strings.Index(m[4], ":=")
			if i < 0 {
				return fmt.Errorf("%s: defines needs ATOM(args) := formula", where)
			}
			cur.Defines = append(cur.Defines, &Clause{Kind: "defines", Label: m[2], Props: parseProps(m[3]), Var: strings.TrimSpace(m[4][:i]), Expr: strings.TrimSpace(m[4][i+2:]), Line: where})
		case "snapshot_after":
			// snapshot_after CALLEE[#n] NAME := expr   -- names the value of expr right after that call (ghost)
			rest := strings.TrimSpace(strings.TrimPrefix(line, "snapshot_after"))
			sp1 := strings.IndexAny(rest, " \t")
			i := strings.Index(rest, ":=")
			if sp1 < 0 || i < sp1 {
				return fmt.Errorf("%s: bad snapshot_after", where)
			}
			cur.AssumeAfter = append(cur.AssumeAfter, &Clause{Kind: "snapshot_after", Var: rest[:sp1], Label: strings.TrimSpace(rest[sp1:i]), Expr: strings.TrimSpace(rest[i+2:]), Line: where})
		case "assert_after":
			// assert_after CALLEE[#n] [label] [{props}]: expr  -- proved right after that call and used from then on (a cut)
			rest := strings.TrimSpace(strings.TrimPrefix(line, "assert_after"))
			sp1 := strings.IndexAny(rest, " \t")
			if sp1 < 0 {
				return fmt.Errorf("%s: bad assert_after", where)
			}
			callee := rest[:sp1]
			m := reClause.FindStringSubmatch("requires " + strings.TrimSpace(rest[sp1:]))
			if m == nil {
				return fmt.Errorf("%s: bad assert_after clause", where)
			}
			cur.AssumeAfter = append(cur.AssumeAfter, &Clause{Kind: "assert_after", Var: callee, Label: m[2], Props: parseProps(m[3]), Expr: m[4], Line: where})
		case "assume_after":
			// assume_after CALLEE[#n] [label]: expr   -- an explicit assumption about the results of that call (listed in the evidence)
			rest := strings.TrimSpace(strings.TrimPrefix(line, "assume_after"))
			sp1 := strings.IndexAny(rest, " \t")
			if sp1 < 0 {
				return fmt.Errorf("%s: bad assume_after", where)
			}
			callee := rest[:sp1]
			m := reClause.FindStringSubmatch("requires " + strings.TrimSpace(rest[sp1:]))
			if m == nil {
				return fmt.Errorf("%s: bad assume_after clause", where)
			}
			cur.AssumeAfter = append(cur.AssumeAfter, &Clause{Kind: "assume_after", Var: callee, Label: m[2], Props: parseProps(m[3]), Expr: m[4], Line: where})
		case "requires", "ensures", "exit_requires", "trusted_ensures":
			m := reClause.FindStringSubmatch(line)
			if m == nil {
				return fmt.Errorf("%s: bad clause %q (need 'kind [label] [{props}]: expr')", where, line)
			}
			c := &Clause{Kind: m[1], Label: m[2], Props: parseProps(m[3]), Expr: m[4], Line: where}
			switch m[1] {
			case "requires":
				cur.Requires = append(cur.Requires, c)
			case "ensures":
				cur.Ensures = append(cur.Ensures, c)
			case "trusted_ensures":
				cur.TrustedEns = append(cur.TrustedEns, c)
			case "exit_requires":
				cur.ExitReq = append(cur.ExitReq, c)
			}
		default:
			return fmt.Errorf("%s: unknown clause %q", where, fields[0])
		}
	}
	return sc.Err()
}

func parseProps(s string) []string {
	s = strings.Trim(s, "{} ")
	if s == "" {
		return nil
	}
	var out []string
	for _, p := range strings.FieldsFunc(s, func(r rune) bool { return r == ',' || r == ' ' }) {
		out = append(out, p)
	}
	return out
}
