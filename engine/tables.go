package main

// Table facts and ground constant facts (back ends "table-eval" / "ground-eval").
//
// The operator tables of src/operators.go are built by package initialisation with no inputs. On every run the
// harness of /verif/replay executes that initialisation OF THE CURRENT TREE (go test -overlay, nothing written to
// /repo) and dumps the tables and placeholder constants; the obligations below compare the dump with the
// independent policy in /verif/spec/policy.json. They justify the axioms table-policy-exempt, marker-not-exempt,
// table-val and the package invariants (tables are non-nil) that the SMT obligations assume.

import (
	"encoding/json"
	"fmt"
	"os"
	"path/filepath"
	"regexp"
	"sort"
	"strings"
	"time"
)

type tableEntry struct {
	Table string
	Path  []string
	Op    int // -1 for nil, -2 for other
	Other string
}

func (e tableEntry) String() string { return e.Table + ":" + strings.Join(e.Path, "/") }

type tableDump struct {
	Entries []tableEntry
	NilMaps []string
	Consts  map[string]any
	Ms      int64
	Err     string
}

var opNames = []string{"Pipeline", "Exempt", "Redactable", "FieldName", "OperatorArray", "OperatorMap", "Namespace"}

func opTypeName(n int) string {
	if n >= 0 && n < len(opNames) {
		return opNames[n]
	}
	if n == -1 {
		return "nil"
	}
	return fmt.Sprintf("op(%d)", n)
}

func (s *Session) tableDump() *tableDump {
	if s.tables != nil {
		return s.tables
	}
	start := time.Now()
	td := &tableDump{}
	s.tables = td
	_, raw, err := runHarnessRaw(map[string]any{"mode": "tables"})
	td.Ms = time.Since(start).Milliseconds()
	if err != nil {
		td.Err = err.Error() + "\n" + raw
		return td
	}
	var reply struct {
		Data struct {
			Tables map[string]json.RawMessage `json:"tables"`
			Consts map[string]any             `json:"consts"`
		} `json:"data"`
	}
	if err := json.Unmarshal([]byte(raw), &reply); err != nil {
		td.Err = "cannot decode table dump: " + err.Error()
		return td
	}
	td.Consts = reply.Data.Consts
	var walk func(table string, path []string, rawEnts json.RawMessage)
	walk = func(table string, path []string, rawEnts json.RawMessage) {
		var ents [][]json.RawMessage
		if err := json.Unmarshal(rawEnts, &ents); err != nil {
			// not a list: nil map marker
			td.NilMaps = append(td.NilMaps, table+":"+strings.Join(path, "/"))
			return
		}
		for _, kv := range ents {
			var k string
			json.Unmarshal(kv[0], &k)
			var v map[string]json.RawMessage
			json.Unmarshal(kv[1], &v)
			p := append(append([]string{}, path...), k)
			switch {
			case v["op"] != nil:
				var n int
				json.Unmarshal(v["op"], &n)
				td.Entries = append(td.Entries, tableEntry{Table: table, Path: p, Op: n})
			case v["map"] != nil:
				walk(table, p, v["map"])
			case v["nil"] != nil:
				td.Entries = append(td.Entries, tableEntry{Table: table, Path: p, Op: -1})
			default:
				var o string
				json.Unmarshal(v["other"], &o)
				td.Entries = append(td.Entries, tableEntry{Table: table, Path: p, Op: -2, Other: o})
			}
		}
	}
	names := make([]string, 0, len(reply.Data.Tables))
	for n := range reply.Data.Tables {
		names = append(names, n)
	}
	sort.Strings(names)
	for _, n := range names {
		walk(n, nil, reply.Data.Tables[n])
	}
	return td
}

type policyFile struct {
	Exempt    []policyPat `json:"exempt"`
	FieldName []policyPat `json:"fieldname"`
	Namespace []policyPat `json:"namespace"`
	Pipeline  []policyPat `json:"pipeline"`
	OpMap     []policyPat `json:"operatormap"`
	MustKeep  []policyReq `json:"mustkeep"`
	NsReq     []policyReq `json:"namespace_required"`
	TopSearch []string    `json:"top_level_search_operators"`
}
type policyPat struct {
	Pattern string `json:"pattern"`
	Why     string `json:"why"`
	re      *regexp.Regexp
}
type policyReq struct {
	Entry string `json:"entry"`
	Type  string `json:"type"`
}

func loadPolicy() (*policyFile, error) {
	b, err := os.ReadFile(filepath.Join(verifDir, "spec", "policy.json"))
	if err != nil {
		return nil, err
	}
	var p policyFile
	if err := json.Unmarshal(b, &p); err != nil {
		return nil, err
	}
	for _, l := range [][]policyPat{p.Exempt, p.FieldName, p.Namespace, p.Pipeline, p.OpMap} {
		for i := range l {
			re, err := regexp.Compile(l[i].Pattern)
			if err != nil {
				return nil, fmt.Errorf("policy pattern %q: %v", l[i].Pattern, err)
			}
			l[i].re = re
		}
	}
	return &p, nil
}

func matchesAny(pats []policyPat, s string) bool {
	for _, p := range pats {
		if p.re.MatchString(s) {
			return true
		}
	}
	return false
}

// tableObligations produces the finite, ground obligations over the evaluated tables and constants.
func (s *Session) tableObligations(prop string) []*Obligation {
	td := s.tableDump()
	mk := func(name string, props []string, ok bool, clause, detail string) *Obligation {
		ob := &Obligation{Name: name, Fn: "tables", Kind: "table", Props: props, Backend: "table-eval", Clause: clause, Ms: 0, Pos: "src/operators.go (evaluated)"}
		if ok {
			ob.Result = "unsat"
		} else {
			ob.Result = "sat"
			ob.Raw = detail
			ob.Model = detail
		}
		return ob
	}
	var out []*Obligation
	add := func(ob *Obligation) {
		if hasProp(ob.Props, prop) {
			out = append(out, ob)
		}
	}
	if td.Err != "" {
		ob := &Obligation{Name: "tables/evaluation", Fn: "tables", Kind: "table", Props: []string{"C01", "C04", "C05", "C07", "C12", "C19", "C02", "C03"}, Backend: "table-eval", Result: "error", Raw: "the table evaluation harness failed: " + td.Err}
		add(ob)
		return out
	}
	pol, err := loadPolicy()
	if err != nil {
		add(&Obligation{Name: "tables/policy", Fn: "tables", Kind: "table", Props: []string{"C01", "C04", "C12"}, Backend: "table-eval", Result: "error", Raw: err.Error()})
		return out
	}
	byOp := map[int][]policyPat{1: pol.Exempt, 3: pol.FieldName, 6: pol.Namespace, 0: pol.Pipeline, 5: pol.OpMap}
	propsOf := map[int][]string{1: {"C01", "C02", "C15", "C04"}, 3: {"C01", "C02", "C15"}, 6: {"C01", "C12"}, 0: {"C01"}, 5: {"C14", "C01", "C04"}}
	entryOp := map[string]int{}
	keyOps := map[string]map[int]bool{} // key name -> set of operator types it is mapped to anywhere
	for _, e := range td.Entries {
		entryOp[e.String()] = e.Op
		k := e.Path[len(e.Path)-1]
		if keyOps[k] == nil {
			keyOps[k] = map[int]bool{}
		}
		keyOps[k][e.Op] = true
		// shape: values are operator types 0..6 or nil (C07 package invariant tableVal)
		if e.Op == -2 || e.Op > 6 || e.Op < -2 {
			add(mk("table-shape:"+e.String(), []string{"C07", "C01"}, false, "table values are OperatorType 0..6, table maps or nil", fmt.Sprintf("%s holds %s %d", e, e.Other, e.Op)))
		}
		if pats, ok := byOp[e.Op]; ok {
			add(mk(fmt.Sprintf("table-policy:%s/%s", strings.ToLower(opTypeName(e.Op)), e), propsOf[e.Op], matchesAny(pats, e.String()),
				fmt.Sprintf("every %s entry of the operator tables is allowed by /verif/spec/policy.json", opTypeName(e.Op)),
				fmt.Sprintf("table entry %s is classified %s but the policy does not list it: a literal (or a whole sub-document) under this key would be kept in clear", e, opTypeName(e.Op))))
		}
	}
	add(mk("table-shape:values", []string{"C07", "C01", "C04"}, true, "all table values are OperatorType 0..6, table maps or nil (axiom table-val)", ""))
	for _, n := range td.NilMaps {
		add(mk("table-shape:nonnil/"+n, []string{"C07"}, false, "operator tables are non-nil (package invariant)", n+" is nil after package initialisation"))
	}
	for _, t := range []string{"AggregationOperators", "CoreOperators", "OperatorMapDefs", "geoJSON", "SearchOperators", "SearchAggregationOperators"} {
		isNil := false
		for _, n := range td.NilMaps {
			if n == t+":" {
				isNil = true
			}
		}
		add(mk("table-shape:nonnil/"+t, []string{"C07", "C01"}, !isNil, "the operator table is non-nil after package initialisation (package invariant)", t+" is nil"))
	}
	// marker keys (mapped to OperatorMap somewhere) are not mapped to any other operator type anywhere (axiom marker-not-exempt)
	for _, k := range sortedKeys(keyOps) {
		if !keyOps[k][5] {
			continue
		}
		bad := ""
		for op := range keyOps[k] {
			if op == 0 || op == 1 || op == 3 || op == 6 || op == 4 {
				bad += " " + opTypeName(op)
			}
		}
		add(mk("table-policy:marker/"+k, []string{"C01", "C04"}, bad == "", "a key marked OperatorMap in some table is not mapped to Exempt, FieldName, Namespace, Pipeline or OperatorArray in any table (axiom marker-not-exempt; closes the cut-off corner of traverseMapPath)", "key "+k+" is marked OperatorMap and is also mapped to"+bad))
	}
	// C04 must-keep positions and C12 required namespace positions
	req := func(kind string, list []policyReq, props []string) {
		for _, r := range list {
			op, ok := entryOp[r.Entry]
			add(mk("table-"+kind+":"+r.Entry, props, ok && opTypeName(op) == r.Type, "the policy requires this position to be classified "+r.Type,
				fmt.Sprintf("%s is %s in the current tables, the policy requires %s", r.Entry, map[bool]string{true: opTypeName(op), false: "absent"}[ok], r.Type)))
		}
	}
	req("mustkeep", pol.MustKeep, []string{"C04"})
	req("namespace", pol.NsReq, []string{"C12"})
	tops, _ := td.Consts["TopLevelSearchOperators"].([]any)
	for _, want := range pol.TopSearch {
		found := false
		for _, t := range tops {
			if t == want {
				found = true
			}
		}
		add(mk("table-mustkeep:TopLevelSearchOperators/"+want, []string{"C04"}, found, "the stage is recognised as a top-level search stage (its index name / limits are kept)", want+" is missing from TopLevelSearchOperators"))
	}
	if n := len(tops); n != 4 {
		add(mk("const:TopLevelSearchOperators/len", []string{"C07"}, false, "package invariant len(TopLevelSearchOperators) == 4", fmt.Sprintf("it has %d elements", n)))
	} else {
		add(mk("const:TopLevelSearchOperators/len", []string{"C07"}, true, "package invariant len(TopLevelSearchOperators) == 4", ""))
	}
	// ground constant facts (C05 / C19)
	cb := func(name string, props []string, key, clause string) {
		v, _ := td.Consts[key].(bool)
		ob := mk("const-class:"+name, props, v, clause, fmt.Sprintf("ground fact %s is false for the constants of the current tree (%v)", key, td.Consts[strings.SplitN(key, "_", 2)[0]]))
		ob.Backend = "ground-eval"
		add(ob)
	}
	cb("RedactedISODate", []string{"C05", "C19"}, "RedactedISODate_rfc3339", "the $date placeholder parses as an RFC 3339 / ISO-8601 instant")
	cb("RedactedObjectId", []string{"C05", "C19"}, "RedactedObjectId_24hex", "the $oid placeholder is 24 hex digits")
	cb("RedactedUUID", []string{"C05", "C19"}, "RedactedUUID_base64", "the $binary.base64 placeholder is valid standard base64")
	cb("RedactedNumber", []string{"C05", "C19"}, "RedactedNumber_is_zero", "the number placeholder is 0")
	cb("RedactedBoolean", []string{"C05", "C19"}, "RedactedBoolean_is_false", "the boolean placeholder is false")
	cb("C_MAIL", []string{"C05", "C19", "C02"}, "C_MAIL_is_email", "the e-mail placeholder is itself e-mail shaped (IsEmail of the current tree)")
	cb("RedactedString-not-email", []string{"C19"}, "RedactedString_not_email", "the default replacement text is not e-mail shaped")
	cb("RedactedISODate-not-email", []string{"C19"}, "date_placeholder_not_email", "the date placeholder is not e-mail shaped")
	cb("emailRegex", []string{"C07"}, "emailRegex_nonnil", "package invariant emailRegex != nil")
	cb("planSummaryIndexKeys", []string{"C15"}, "planSummaryIndexKeys_pattern", "the pattern whose matches are handed to the plan-summary rewriting closure is IXSCAN\\s*\\{([^}]+)\\} (a match starts with IXSCAN, has its first '{' after it and ends in its only '}': axiom ixscan-stage-shape)")
	// enumeration constants used numerically in the prelude (VOp(1) = Exempt, VOp(5) = OperatorMap ...)
	for i, n := range opNames {
		v, _ := td.Consts[n].(float64)
		ob := mk("const:OperatorType/"+n, []string{"C01", "C04", "C07", "C12"}, int(v) == i, fmt.Sprintf("the prelude's numeric encoding VOp(%d) = %s matches the constant of the current tree", i, n), fmt.Sprintf("%s = %v", n, td.Consts[n]))
		ob.Backend = "ground-eval"
		add(ob)
	}
	for _, ob := range out {
		ob.Ms = td.Ms / int64(len(out)+1)
	}
	return out
}
