package main

// Terms and sorts of the verification-condition language (SMT-LIB 2 subset).

import (
	"fmt"
	"go/types"
	"sort"
	"strings"
)

type Sort string

const (
	SInt   Sort = "Int"
	SBool  Sort = "Bool"
	SStr   Sort = "Str"
	SVal   Sort = "Val"
	SSlice Sort = "Slice"
	SF64   Sort = "F64"
	SOpq   Sort = "Opq"
	SBytes Sort = "Bytes"
	SSet   Sort = "SSet"
	SSeq   Sort = "SSeq"
	SOMap  Sort = "OMap"
	SNone  Sort = "" // unit / no value
)

func ArrSort(idx, elem Sort) Sort { return Sort("(Array " + string(idx) + " " + string(elem) + ")") }

func (s Sort) IsArray() bool { return strings.HasPrefix(string(s), "(Array ") }

// ArrayElem returns the element sort of an (Array Int X) sort.
func (s Sort) ArrayElem() Sort {
	str := string(s)
	if !s.IsArray() {
		return SNone
	}
	// "(Array Int X)" where X may itself be parenthesised
	rest := strings.TrimPrefix(str, "(Array ")
	// index sort is a single token or parenthesised
	idxEnd := sortTokenEnd(rest)
	elem := strings.TrimSpace(rest[idxEnd:])
	elem = strings.TrimSuffix(elem, ")")
	return Sort(elem)
}

func (s Sort) ArrayIdx() Sort {
	rest := strings.TrimPrefix(string(s), "(Array ")
	return Sort(rest[:sortTokenEnd(rest)])
}

func sortTokenEnd(s string) int {
	if len(s) == 0 {
		return 0
	}
	if s[0] != '(' {
		i := strings.IndexAny(s, " )")
		if i < 0 {
			return len(s)
		}
		return i
	}
	depth := 0
	for i, c := range s {
		if c == '(' {
			depth++
		} else if c == ')' {
			depth--
			if depth == 0 {
				return i + 1
			}
		}
	}
	return len(s)
}

type Term struct {
	Op   string
	Args []*Term
	Sort Sort
	Ty   types.Type // Go type, when the term stands for a Go value (nil for spec-only terms)
	Elem Sort       // element sort for slice terms without a Go type
	Bound []*Term   // quantified variables (Op == "forall"); Args[0] is the body, Args[1:] the pattern terms
	str  string
}

func (t *Term) String() string {
	if t == nil {
		return "<nil>"
	}
	if t.str != "" {
		return t.str
	}
	if len(t.Args) == 0 {
		t.str = t.Op
		return t.str
	}
	if t.Op == "forall" {
		var b strings.Builder
		b.WriteString("(forall (")
		for i, v := range t.Bound {
			if i > 0 {
				b.WriteByte(' ')
			}
			fmt.Fprintf(&b, "(%s %s)", v.Op, v.Sort)
		}
		b.WriteString(") (! ")
		b.WriteString(t.Args[0].String())
		b.WriteString(" :pattern (")
		for i, p := range t.Args[1:] {
			if i > 0 {
				b.WriteByte(' ')
			}
			b.WriteString(p.String())
		}
		b.WriteString(")))")
		t.str = b.String()
		return t.str
	}
	var b strings.Builder
	b.WriteByte('(')
	b.WriteString(t.Op)
	for _, a := range t.Args {
		b.WriteByte(' ')
		b.WriteString(a.String())
	}
	b.WriteByte(')')
	t.str = b.String()
	return t.str
}

func mk(op string, sort Sort, args ...*Term) *Term {
	for i, a := range args {
		if a == nil {
			panic(fmt.Sprintf("mk(%s): nil argument %d", op, i))
		}
	}
	return &Term{Op: op, Args: args, Sort: sort}
}

func Const(name string, sort Sort) *Term { return &Term{Op: name, Sort: sort} }

func IntLit(n int64) *Term {
	if n < 0 {
		return mk("-", SInt, &Term{Op: fmt.Sprint(-n), Sort: SInt})
	}
	return &Term{Op: fmt.Sprint(n), Sort: SInt}
}

var (
	True  = &Term{Op: "true", Sort: SBool}
	False = &Term{Op: "false", Sort: SBool}
)

func BoolLit(b bool) *Term {
	if b {
		return True
	}
	return False
}

func And(ts ...*Term) *Term {
	var out []*Term
	for _, t := range ts {
		if t == nil || t == True || t.Op == "true" {
			continue
		}
		if t.Op == "false" && len(t.Args) == 0 {
			return False
		}
		if t.Op == "and" {
			out = append(out, t.Args...)
		} else {
			out = append(out, t)
		}
	}
	switch len(out) {
	case 0:
		return True
	case 1:
		return out[0]
	}
	return mk("and", SBool, out...)
}

func Or(ts ...*Term) *Term {
	var out []*Term
	for _, t := range ts {
		if t == nil || (t.Op == "false" && len(t.Args) == 0) {
			continue
		}
		if t.Op == "true" && len(t.Args) == 0 {
			return True
		}
		if t.Op == "or" {
			out = append(out, t.Args...)
		} else {
			out = append(out, t)
		}
	}
	switch len(out) {
	case 0:
		return False
	case 1:
		return out[0]
	}
	return mk("or", SBool, out...)
}

func Not(t *Term) *Term {
	if t.Op == "true" && len(t.Args) == 0 {
		return False
	}
	if t.Op == "false" && len(t.Args) == 0 {
		return True
	}
	if t.Op == "not" {
		return t.Args[0]
	}
	return mk("not", SBool, t)
}

func Implies(a, b *Term) *Term {
	if a.Op == "true" && len(a.Args) == 0 {
		return b
	}
	if a.Op == "false" && len(a.Args) == 0 {
		return True
	}
	if b.Op == "true" && len(b.Args) == 0 {
		return True
	}
	return mk("=>", SBool, a, b)
}

func Eq(a, b *Term) *Term {
	if a.Sort != b.Sort {
		panic(fmt.Sprintf("Eq: sort mismatch %s:%s vs %s:%s", a, a.Sort, b, b.Sort))
	}
	if a == b || a.String() == b.String() {
		return True
	}
	return mk("=", SBool, a, b)
}

func Ite(c, a, b *Term) *Term {
	if a.Sort != b.Sort {
		panic(fmt.Sprintf("Ite: sort mismatch %s:%s vs %s:%s", a, a.Sort, b, b.Sort))
	}
	if c.Op == "true" && len(c.Args) == 0 {
		return a
	}
	if c.Op == "false" && len(c.Args) == 0 {
		return b
	}
	if a == b || a.String() == b.String() {
		return a
	}
	return mk("ite", a.Sort, c, a, b)
}

func Select(arr, idx *Term) *Term {
	return mk("select", arr.Sort.ArrayElem(), arr, idx)
}

func Store(arr, idx, v *Term) *Term {
	if arr.Sort.ArrayElem() != v.Sort {
		panic(fmt.Sprintf("Store: sort mismatch arr %s elem %s value %s:%s", arr.Sort, arr.Sort.ArrayElem(), v, v.Sort))
	}
	return mk("store", arr.Sort, arr, idx, v)
}

func Add(a, b *Term) *Term { return mk("+", SInt, a, b) }
func Sub(a, b *Term) *Term { return mk("-", SInt, a, b) }
func Le(a, b *Term) *Term  { return mk("<=", SBool, a, b) }
func Lt(a, b *Term) *Term  { return mk("<", SBool, a, b) }

// App applies an uninterpreted/spec function.
func App(name string, sort Sort, args ...*Term) *Term { return mk(name, sort, args...) }

// symbols collects every operator symbol used in t.
func (t *Term) symbols(into map[string]bool) {
	if t == nil {
		return
	}
	into[t.Op] = true
	for _, a := range t.Args {
		a.symbols(into)
	}
}

func sortedKeys[V any](m map[string]V) []string {
	ks := make([]string, 0, len(m))
	for k := range m {
		ks = append(ks, k)
	}
	sort.Strings(ks)
	return ks
}

// subst replaces constants by terms (used for binding contract variables).
func (t *Term) subst(m map[string]*Term) *Term {
	if len(t.Args) == 0 {
		if r, ok := m[t.Op]; ok {
			return r
		}
		return t
	}
	changed := false
	args := make([]*Term, len(t.Args))
	for i, a := range t.Args {
		args[i] = a.subst(m)
		if args[i] != a {
			changed = true
		}
	}
	if !changed {
		return t
	}
	return &Term{Op: t.Op, Args: args, Sort: t.Sort, Ty: t.Ty, Elem: t.Elem, Bound: t.Bound}
}

// Forall builds a quantified formula with one explicit pattern (bound variables are constants named "?x").
func Forall(bound []*Term, body *Term, pats ...*Term) *Term {
	return &Term{Op: "forall", Args: append([]*Term{body}, pats...), Sort: SBool, Bound: bound}
}
