package main

// Verification-condition generation over go/ssa (passive DAG encoding, loops cut at invariants,
// calls replaced by contracts).

import (
	"fmt"
	"go/ast"
	"go/token"
	"go/types"
	"os"
	"regexp"
	"sort"
	"strings"

	"golang.org/x/tools/go/ssa"
)

type Obligation struct {
	Axioms map[string]bool // names of the axiom schemas handed to the solver with this obligation
	Name   string
	Fn     string
	Kind   string
	Props  []string
	Pos    string
	Guard  *Term
	Goal   *Term
	Cut    int // number of log items that precede the obligation
	Clause string
	Assumed bool // assert-then-assume: later obligations of the same function rely on it
	vc     *FnVC
	// filled by the solver stage
	Result  string // unsat | sat | unknown | timeout | error
	Backend string
	Ms      int64
	Model   string
	Raw     string
}

type FnVC struct {
	g               *Gen
	fn              *ssa.Function
	ct              *Contract
	log             []*Term
	obs             []*Obligation
	unsupported     []string
	assumedExt      map[string]bool
	usedCt          map[string]bool
	nameCount       map[string]int
	ords            map[ssa.Instruction]string
	loopOrd         map[*ssa.BasicBlock]int
	inlineDepth     int
	canaries        []*Obligation
	explicitAssumes []string
}

type retRec struct {
	guard   *Term
	results []*Term
	st      *State
}

type deferRec struct {
	guard *Term
	call  *ssa.Defer
}

type loopInfo struct {
	header *ssa.BasicBlock
	body   map[*ssa.BasicBlock]bool
	ord    int
}

type Frame struct {
	vc      *FnVC
	fn      *ssa.Function
	prefix  string
	vals    map[ssa.Value]*Term
	tuples  map[ssa.Value][]*Term
	reach   map[*ssa.BasicBlock]*Term
	out     map[*ssa.BasicBlock]*State
	alive   map[*ssa.BasicBlock]*Term // reach at block end (false after terminal calls)
	rets    []retRec
	defers  []deferRec
	entry   *State
	loops   map[*ssa.BasicBlock]*loopInfo
	top     bool
	env0    *Env // entry environment (params, locals) for old()
	params  map[string]*Term
	phiEnv  map[*ssa.Phi]*Term
	oblPref string
	parent  *Frame          // the frame this one is inlined into
	site    ssa.Instruction // the call instruction in the parent frame
}

func (vc *FnVC) unsupportedf(format string, args ...any) {
	vc.unsupported = append(vc.unsupported, fmt.Sprintf(format, args...))
}

func (vc *FnVC) assume(t *Term) {
	if t == nil || t == True || (t.Op == "true" && len(t.Args) == 0) {
		return
	}
	vc.log = append(vc.log, t)
}

func (vc *FnVC) define(prefix string, t *Term) *Term {
	if len(t.Args) == 0 {
		return t
	}
	c := Const(vc.g.freshName(prefix), t.Sort)
	c.Ty, c.Elem = t.Ty, t.Elem
	vc.log = append(vc.log, Eq(c, t))
	return c
}

func (vc *FnVC) fresh(prefix string, s Sort) *Term {
	return Const(vc.g.freshName(prefix), s)
}

func (vc *FnVC) oblige(name, kind string, props []string, pos string, guard, goal *Term, clause string) {
	full := vc.fnName() + "/" + name
	vc.nameCount[full]++
	if n := vc.nameCount[full]; n > 1 {
		full = fmt.Sprintf("%s~%d", full, n)
	}
	if len(props) == 0 {
		// clauses without an explicit tag (frames, preconditions of callees, unlabelled clauses) serve every
		// property the function is listed for
		props = append(append([]string{}, vc.ct.Props...), vc.ct.SafetyProps...)
	}
	ob := &Obligation{Name: full, Fn: vc.fnName(), Kind: kind, Props: props, Pos: pos, Guard: guard, Goal: goal, Cut: len(vc.log), Clause: clause, vc: vc, Assumed: true}
	vc.obs = append(vc.obs, ob)
	// assert-then-assume: the execution only continues if the condition held. An obligation that is a recorded OPEN known
	// finding is known to be false on some path: assuming it would make everything after it on that path vacuous (and hide
	// other violations there), so it is asserted only.
	if isOpenKnownFinding(full) {
		ob.Assumed = false
		return
	}
	vc.assume(Implies(guard, goal))
}

var openKnown struct {
	loaded bool
	names  map[string]bool
	res    []*regexp.Regexp
}

// isOpenKnownFinding: the obligation name matches a finding of known_findings.json with status "known".
func isOpenKnownFinding(name string) bool {
	if !openKnown.loaded {
		openKnown.loaded = true
		openKnown.names = map[string]bool{}
		ks, _ := loadKnown()
		for _, k := range ks {
			if k.Status != "known" {
				continue
			}
			openKnown.names[k.Obligation] = true
			if k.Regex != "" {
				if re, err := regexp.Compile("^(?:" + k.Regex + ")$"); err == nil {
					openKnown.res = append(openKnown.res, re)
				}
			}
		}
	}
	if openKnown.names[name] {
		return true
	}
	for _, re := range openKnown.res {
		if re.MatchString(name) {
			return true
		}
	}
	return false
}

// canary records a vacuity probe: "false" must NOT be provable at this point.
func (vc *FnVC) canary(where string, guard *Term) {
	vc.canaries = append(vc.canaries, &Obligation{Name: vc.fnName() + "/canary:" + where, Fn: vc.fnName(), Kind: "canary", Guard: guard, Goal: False, Cut: len(vc.log), vc: vc})
}

func (vc *FnVC) fnName() string { return shortFnName(vc.fn) }

func shortFnName(fn *ssa.Function) string {
	s := fn.String()
	s = strings.ReplaceAll(s, "anonymongo/src.", "")
	s = strings.ReplaceAll(s, "github.com/elliotchance/orderedmap/v3.", "orderedmap.")
	s = strings.ReplaceAll(s, "[string,any]", "")
	s = strings.ReplaceAll(s, "[string, any]", "")
	s = reGenericSuffix.ReplaceAllString(s, "")
	return s
}

// generic instantiation suffix of a function name, e.g. "Set[string any]" or "slices.Contains[[]string string]"
var reGenericSuffix = regexp.MustCompile(`\[[^()]*\]$`)

func (vc *FnVC) pos(p token.Pos) string {
	if !p.IsValid() {
		return ""
	}
	ps := vc.g.prog.Fset.Position(p)
	f := ps.Filename
	if i := strings.LastIndex(f, "/"); i >= 0 {
		f = f[i+1:]
	}
	return fmt.Sprintf("%s:%d", f, ps.Line)
}

// ---- entry point ---------------------------------------------------------------------------

func GenerateVC(g *Gen, fn *ssa.Function, ct *Contract) (vc *FnVC) {
	vc = &FnVC{g: g, fn: fn, ct: ct, assumedExt: map[string]bool{}, usedCt: map[string]bool{}, nameCount: map[string]int{}}
	defer func() {
		if r := recover(); r != nil {
			if ee, ok := r.(*exprError); ok {
				vc.unsupportedf("contract error: %s", ee.msg)
				return
			}
			if us, ok := r.(unsupportedPanic); ok {
				vc.unsupportedf("%s", string(us))
				return
			}
			panic(r)
		}
	}()
	vc.ords = computeOrdinals(fn)
	fr := vc.newFrame(fn, "", true)
	st := NewState()
	// parameters
	env := &Env{g: g, vars: map[string]*Term{}, st: st, where: ct.Source, params: map[string]bool{}, ctx: []string{shortFnName(fn)}}
	for _, p := range fn.Params {
		env.params[p.Name()] = true
		t := Const("p_"+smtName(p.Name()), g.sortOf(p.Type()))
		t.Ty = p.Type()
		fr.vals[p] = t
		env.vars[p.Name()] = t
		vc.typeFacts(t, p.Type(), st)
	}
	var fvs []*Term
	for _, fv := range fn.FreeVars {
		t := Const("fv_"+smtName(fv.Name()), SInt)
		t.Ty = fv.Type()
		fr.vals[fv] = t
		env.vars[fv.Name()] = t
		fvs = append(fvs, t)
		vc.assume(mk(">", SBool, t, IntLit(0)))
	}
	if len(fvs) > 1 {
		vc.assume(mk("distinct", SBool, fvs...))
	}
	vc.assume(mk(">=", SBool, st.Get(g, "heapTop"), IntLit(0)))
	for _, t := range fvs {
		vc.assume(Le(t, st.Get(g, "heapTop")))
	}
	fr.entry = st.Clone()
	env.st = fr.entry
	env.old = env
	fr.env0 = env
	// locals (ghost definitions at entry)
	for _, l := range ct.Locals {
		e2 := *env
		e2.where = l.Line
		t, err := e2.Parse(l.Expr)
		if err != nil {
			panic(&exprError{err.Error()})
		}
		env.vars[l.Var] = vc.define("loc_"+l.Var, t)
	}
	// package-level variables that provably keep their constant initial value
	cg := g.constGlobals()
	for _, n := range sortedKeys(cg) {
		if s := g.sortOf(cg[n].Type()); s == SInt || s == SBool || s == SStr {
			vc.assume(Eq(st.Get(g, "G:"+n), g.constTerm(cg[n])))
		}
	}
	// package-level slices and pointers refer to cells that already exist at function entry
	var gnames []string
	for n, m := range g.pkg.Members {
		if _, ok := m.(*ssa.Global); ok {
			gnames = append(gnames, n)
		}
	}
	sort.Strings(gnames)
	for _, n := range gnames {
		gv := g.pkg.Members[n].(*ssa.Global)
		el := gv.Type().(*types.Pointer).Elem()
		switch g.sortOf(el) {
		case SSlice:
			vc.typeFacts(st.Get(g, "G:"+n), el, st)
		case SInt:
			if _, isPtr := el.Underlying().(*types.Pointer); isPtr {
				vc.typeFacts(st.Get(g, "G:"+n), el, st)
			}
		}
	}
	for _, n := range sortedKeys(g.nonNilGlob) {
		vc.assume(Not(Eq(st.Get(g, "G:"+n), IntLit(0))))
	}
	// package invariants and preconditions
	for _, c := range vc.g.spec.pkgInvariants() {
		e2 := *env
		e2.where = c.Line
		t, err := e2.Parse(c.Expr)
		if err != nil {
			panic(&exprError{err.Error()})
		}
		vc.assume(t)
	}
	for _, c := range ct.Requires {
		e2 := *env
		e2.where = c.Line
		t, err := e2.Parse(c.Expr)
		if err != nil {
			panic(&exprError{err.Error()})
		}
		vc.assume(t)
	}
	// HEAP-CLOSED: references stored inside the heap at function entry refer to cells that exist at entry
	// (references are only ever created by allocation, so this holds in every reachable state)
	if _, hasOM := g.spec.Funs["omVal"]; hasOM {
		top0 := fr.entry.Get(g, "heapTop")
		r, i := Const("?r", SInt), Const("?i", SInt)
		m0 := fr.entry.Get(g, "Mem:OMap")
		val := App("omVal", SVal, Select(m0, r), i)
		vc.assume(Forall([]*Term{r, i}, Implies(Le(r, top0), And(
			Implies(tester("VMap", val), And(Lt(IntLit(0), mk("mv", SInt, val)), Le(mk("mv", SInt, val), top0))),
			Implies(tester("VArr", val), Le(mk("sbase", SInt, mk("av", SSlice, val)), top0)))), val))
		a0 := fr.entry.Get(g, "Arr:Val")
		cell := Select(Select(a0, r), i)
		vc.assume(Forall([]*Term{r, i}, Implies(Le(r, top0), And(
			Implies(tester("VMap", cell), And(Lt(IntLit(0), mk("mv", SInt, cell)), Le(mk("mv", SInt, cell), top0))),
			Implies(tester("VArr", cell), Le(mk("sbase", SInt, mk("av", SSlice, cell)), top0)))), cell))
	}
	vc.canary("entry", True)
	fr.run(st)
	// postconditions over the merged returns
	if len(fr.rets) > 0 {
		guard, results, fin := fr.mergeReturns()
		vc.emitPost(fr, guard, results, fin)
		vc.canary("return", guard)
	}
	return vc
}

type unsupportedPanic string

func unsupported(format string, args ...any) {
	panic(unsupportedPanic(fmt.Sprintf(format, args...)))
}

func (sp *Spec) pkgInvariants() []*Clause {
	if c, ok := sp.Contracts["package"]; ok {
		return c.Requires
	}
	return nil
}

func (vc *FnVC) typeFacts(t *Term, ty types.Type, st *State) {
	switch vc.g.sortOf(ty) {
	case SSlice:
		vc.assume(sliceWF(t))
		vc.assume(Le(mk("sbase", SInt, t), st.Get(vc.g, "heapTop")))
	case SInt:
		if _, ok := ty.Underlying().(*types.Pointer); ok {
			vc.assume(And(mk(">=", SBool, t, IntLit(0)), Le(t, st.Get(vc.g, "heapTop"))))
		}
	}
}

func sliceWF(t *Term) *Term {
	base := mk("sbase", SInt, t)
	off := mk("soff", SInt, t)
	ln := mk("slen_", SInt, t)
	cp := mk("scap", SInt, t)
	return And(mk(">=", SBool, base, IntLit(0)), mk(">=", SBool, off, IntLit(0)), mk(">=", SBool, ln, IntLit(0)), Le(ln, cp),
		Implies(Eq(base, IntLit(0)), And(Eq(ln, IntLit(0)), Eq(cp, IntLit(0)), Eq(off, IntLit(0)))))
}

func (vc *FnVC) newFrame(fn *ssa.Function, prefix string, top bool) *Frame {
	fr := &Frame{vc: vc, fn: fn, prefix: prefix, top: top,
		vals: map[ssa.Value]*Term{}, tuples: map[ssa.Value][]*Term{}, reach: map[*ssa.BasicBlock]*Term{},
		out: map[*ssa.BasicBlock]*State{}, alive: map[*ssa.BasicBlock]*Term{}, phiEnv: map[*ssa.Phi]*Term{}}
	fr.loops = findLoops(fn)
	return fr
}

// ---- CFG helpers ---------------------------------------------------------------------------

func isBackEdge(from, to *ssa.BasicBlock) bool { return to.Dominates(from) }

func findLoops(fn *ssa.Function) map[*ssa.BasicBlock]*loopInfo {
	loops := map[*ssa.BasicBlock]*loopInfo{}
	for _, b := range fn.Blocks {
		for _, s := range b.Succs {
			if isBackEdge(b, s) {
				li := loops[s]
				if li == nil {
					li = &loopInfo{header: s, body: map[*ssa.BasicBlock]bool{s: true}}
					loops[s] = li
				}
				// natural loop: nodes that reach b without passing through s
				stack := []*ssa.BasicBlock{b}
				for len(stack) > 0 {
					n := stack[len(stack)-1]
					stack = stack[:len(stack)-1]
					if li.body[n] {
						continue
					}
					li.body[n] = true
					stack = append(stack, n.Preds...)
				}
			}
		}
	}
	// ordinals in source order of the header's first positioned instruction
	var hs []*ssa.BasicBlock
	for h := range loops {
		hs = append(hs, h)
	}
	sort.Slice(hs, func(i, j int) bool { return loopPos(loops[hs[i]]) < loopPos(loops[hs[j]]) })
	for i, h := range hs {
		loops[h].ord = i + 1
		if os.Getenv("GOVC_DEBUG") != "" {
			fmt.Fprintf(os.Stderr, "loop %d of %s: header block %d, first position %s\n", i+1, fn.Name(), h.Index, fn.Prog.Fset.Position(loopPos(loops[h])))
		}
	}
	return loops
}

func loopPos(li *loopInfo) token.Pos {
	best := token.Pos(1 << 40)
	for b := range li.body {
		for _, in := range b.Instrs {
			if p := in.Pos(); p.IsValid() && p < best {
				best = p
			}
			if d, ok := in.(*ssa.DebugRef); ok {
				if p := d.Expr.Pos(); p.IsValid() && p < best {
					best = p
				}
			}
		}
	}
	return best
}

func topoOrder(fn *ssa.Function) []*ssa.BasicBlock {
	var order []*ssa.BasicBlock
	seen := map[*ssa.BasicBlock]bool{}
	var visit func(b *ssa.BasicBlock)
	visit = func(b *ssa.BasicBlock) {
		seen[b] = true
		for _, s := range b.Succs {
			if !seen[s] && !isBackEdge(b, s) {
				visit(s)
			}
		}
		order = append(order, b)
	}
	visit(fn.Blocks[0])
	for i, j := 0, len(order)-1; i < j; i, j = i+1, j-1 {
		order[i], order[j] = order[j], order[i]
	}
	return order
}

func computeOrdinals(fn *ssa.Function) map[ssa.Instruction]string {
	type rec struct {
		in  ssa.Instruction
		key string
		pos token.Pos
		seq int
	}
	var recs []rec
	seq := 0
	for _, b := range fn.Blocks {
		for _, in := range b.Instrs {
			seq++
			key := ""
			switch x := in.(type) {
			case *ssa.Call:
				key = "call:" + calleeName(x.Common())
			case *ssa.Defer:
				key = "call:" + calleeName(x.Common())
			case *ssa.TypeAssert:
				if !x.CommaOk {
					key = "assert-type:" + typeShort(x.AssertedType)
				}
			case *ssa.IndexAddr:
				key = "index"
			case *ssa.Index:
				key = "index"
			case *ssa.Lookup:
				key = "lookup"
			case *ssa.Slice:
				key = "slice"
			case *ssa.Panic:
				key = "panic"
			case *ssa.Return:
				key = "ret"
			case *ssa.BinOp:
				key = "arith"
			case *ssa.MapUpdate:
				key = "mapupdate"
			case *ssa.MakeInterface:
				key = "mkiface"
			}
			if key != "" {
				recs = append(recs, rec{in, key, in.Pos(), seq})
			}
		}
	}
	sort.SliceStable(recs, func(i, j int) bool {
		if recs[i].pos != recs[j].pos && recs[i].pos.IsValid() && recs[j].pos.IsValid() {
			return recs[i].pos < recs[j].pos
		}
		return recs[i].seq < recs[j].seq
	})
	counts := map[string]int{}
	out := map[ssa.Instruction]string{}
	for _, r := range recs {
		counts[r.key]++
		out[r.in] = fmt.Sprintf("%s#%d", strings.TrimPrefix(r.key, "call:"), counts[r.key])
	}
	return out
}

func calleeName(c *ssa.CallCommon) string {
	if c.IsInvoke() {
		return "(" + typeShort(c.Value.Type()) + ")." + c.Method.Name()
	}
	switch v := c.Value.(type) {
	case *ssa.Function:
		return shortFnName(v)
	case *ssa.Builtin:
		return "builtin." + v.Name()
	case *ssa.MakeClosure:
		return shortFnName(v.Fn.(*ssa.Function))
	}
	return "dynamic"
}

// ---- frame execution -------------------------------------------------------------------------

func (fr *Frame) name(s string) string { return fr.prefix + s }

func (fr *Frame) run(entry *State) {
	vc := fr.vc
	order := topoOrder(fr.fn)
	for _, b := range order {
		var st *State
		var reach *Term
		li := fr.loops[b]
		if b == fr.fn.Blocks[0] {
			st = entry
			reach = True
			if !fr.top {
				reach = fr.reach[b]
			}
		} else {
			var preds []*ssa.BasicBlock
			for _, p := range b.Preds {
				if !isBackEdge(p, b) {
					if _, done := fr.out[p]; done {
						preds = append(preds, p)
					}
				}
			}
			if len(preds) == 0 {
				continue // unreachable block
			}
			st, reach = fr.mergePreds(b, preds)
		}
		if li != nil {
			st, reach = fr.enterLoop(b, li, st, reach)
		}
		fr.reach[b] = reach
		fr.execBlock(b, st, reach)
	}
	_ = vc
}

func (fr *Frame) edgeCond(p, b *ssa.BasicBlock) *Term {
	alive := fr.alive[p]
	if iff, ok := p.Instrs[len(p.Instrs)-1].(*ssa.If); ok {
		c := fr.val(iff.Cond)
		if p.Succs[0] == b && p.Succs[1] == b {
			return alive
		}
		if p.Succs[0] == b {
			return And(alive, c)
		}
		return And(alive, Not(c))
	}
	return alive
}

func (fr *Frame) mergePreds(b *ssa.BasicBlock, preds []*ssa.BasicBlock) (*State, *Term) {
	vc := fr.vc
	var conds []*Term
	for _, p := range preds {
		conds = append(conds, vc.define("edge", fr.edgeCond(p, b)))
	}
	reach := vc.define(fmt.Sprintf("reach_%sb%d", fr.prefix, b.Index), Or(conds...))
	// phis (non-loop-header blocks; loop headers handle their own)
	if fr.loops[b] == nil {
		for _, in := range b.Instrs {
			phi, ok := in.(*ssa.Phi)
			if !ok {
				break
			}
			if vc.g.sortOf(phi.Type()) == SNone {
				continue
			}
			var t *Term
			for i := len(preds) - 1; i >= 0; i-- {
				v := fr.val(phi.Edges[predIndex(b, preds[i])])
				if t == nil {
					t = v
				} else {
					t = Ite(conds[i], v, t)
				}
			}
			d := vc.define(fr.name(phi.Name()), t)
			d = vc.g.withType(d, phi.Type())
			fr.vals[phi] = d
		}
	}
	// state
	if len(preds) == 1 {
		return fr.out[preds[0]].Clone(), reach
	}
	st := NewState()
	comps := map[string]bool{}
	for _, p := range preds {
		for k := range fr.out[p].m {
			comps[k] = true
		}
	}
	for _, k := range sortedKeys(comps) {
		var t *Term
		same := true
		first := fr.out[preds[0]].Get(vc.g, k)
		for _, p := range preds[1:] {
			if fr.out[p].Get(vc.g, k).String() != first.String() {
				same = false
			}
		}
		if same {
			st.Set(k, first)
			continue
		}
		for i := len(preds) - 1; i >= 0; i-- {
			v := fr.out[preds[i]].Get(vc.g, k)
			if t == nil {
				t = v
			} else {
				t = Ite(conds[i], v, t)
			}
		}
		d := vc.define(compSym(k), t)
		d.Ty = first.Ty
		st.Set(k, d)
	}
	return st, reach
}

func predIndex(b, p *ssa.BasicBlock) int {
	for i, q := range b.Preds {
		if q == p {
			return i
		}
	}
	panic("predIndex")
}

// ---- loops -------------------------------------------------------------------------------------

func compOfAssign(g *Gen, a string) string {
	a = strings.TrimSpace(a)
	if strings.Contains(a, ":") || a == "heapTop" || a == "GoMaps" {
		return a
	}
	if _, ok := g.spec.Ghosts[a]; ok {
		return "g:" + a
	}
	if g.mainGlobal(a) != nil {
		return "G:" + a
	}
	panic(&exprError{"assigns: unknown component " + a})
}

func (fr *Frame) cellComps(el types.Type) []string {
	g := fr.vc.g
	switch u := el.Underlying().(type) {
	case *types.Struct:
		var out []string
		for i := 0; i < u.NumFields(); i++ {
			if _, nested := u.Field(i).Type().Underlying().(*types.Struct); nested {
				out = append(out, fr.cellComps(u.Field(i).Type())...)
				continue
			}
			out = append(out, g.fieldComp(el, i))
		}
		return out
	case *types.Array:
		return []string{"Arr:" + string(g.sortOf(u.Elem()))}
	}
	return []string{"Mem:" + string(g.sortOf(el))}
}

// addrComps: the state components a store through this address may modify.
func (fr *Frame) addrComps(addr ssa.Value) []string {
	g := fr.vc.g
	if pt, ok := addr.Type().Underlying().(*types.Pointer); ok && isOMStruct(pt.Elem()) {
		return []string{"Mem:OMap"}
	}
	switch a := addr.(type) {
	case *ssa.Global:
		if a.Pkg == g.pkg {
			return []string{"G:" + a.Name()}
		}
		return []string{"X:" + a.Pkg.Pkg.Name() + "." + a.Name()}
	case *ssa.FieldAddr:
		st := a.X.Type().Underlying().(*types.Pointer).Elem()
		ft := st.Underlying().(*types.Struct).Field(a.Field).Type()
		if _, nested := ft.Underlying().(*types.Struct); nested {
			return fr.cellComps(ft)
		}
		return []string{g.fieldComp(st, a.Field)}
	case *ssa.IndexAddr:
		switch u := a.X.Type().Underlying().(type) {
		case *types.Slice:
			return []string{"Arr:" + string(g.sortOf(u.Elem()))}
		case *types.Pointer:
			arr := u.Elem().Underlying().(*types.Array)
			return []string{"Arr:" + string(g.sortOf(arr.Elem()))}
		}
	}
	return fr.cellComps(addr.Type().Underlying().(*types.Pointer).Elem())
}

func (fr *Frame) enterLoop(b *ssa.BasicBlock, li *loopInfo, st *State, reach *Term) (*State, *Term) {
	vc := fr.vc
	g := vc.g
	// 1. invariant on entry
	var entering []*ssa.BasicBlock
	for _, p := range b.Preds {
		if !isBackEdge(p, b) {
			if _, done := fr.out[p]; done {
				entering = append(entering, p)
			}
		}
	}
	phiIn := map[*ssa.Phi]*Term{}
	for _, in := range b.Instrs {
		phi, ok := in.(*ssa.Phi)
		if !ok {
			break
		}
		var t *Term
		for i := len(entering) - 1; i >= 0; i-- {
			v := fr.val(phi.Edges[predIndex(b, entering[i])])
			if t == nil {
				t = v
			} else {
				t = Ite(fr.edgeCond(entering[i], b), v, t)
			}
		}
		phiIn[phi] = t
	}
	invs := fr.invariants(li)
	hasRangeIndex := false
	for _, in := range b.Instrs {
		if phi, ok := in.(*ssa.Phi); ok && phi.Comment == "rangeindex" {
			hasRangeIndex = true
		}
	}
	if fr.top && len(vc.ct.Each[li.ord]) > 0 && (hasRangeIndex || vc.ct.Mandatory[li.ord]) {
		// per-iteration clauses over a range loop claim something about every index: the loop must be a complete range loop
		// (on other loops an `each` clause is a plain per-iteration assertion; completeness there comes from an accumulator invariant)
		ok, why := rangeComplete(li)
		if ok && vc.ct.Mandatory[li.ord] {
			// the per-iteration clauses justify a statement about the whole array only if no return bypasses the loop
			for _, b := range fr.fn.Blocks {
				if len(b.Instrs) == 0 {
					continue
				}
				if _, isRet := b.Instrs[len(b.Instrs)-1].(*ssa.Return); isRet && !li.header.Dominates(b) {
					ok, why = false, fmt.Sprintf("a return (block %d, %s) is reached without going through the loop: the array is returned without every element having been visited", b.Index, vc.pos(b.Instrs[len(b.Instrs)-1].Pos()))
				}
			}
		}
		ob := &Obligation{Name: vc.fnName() + fmt.Sprintf("/loop%d/range-complete", li.ord), Fn: vc.fnName(), Kind: "loop-shape", Props: eachProps(vc.ct.Each[li.ord]), Backend: "ssa-shape",
			Clause: "the loop is a range loop over the whole slice: index from 0 to len-1 in steps of 1, left only when the index reaches len (no break / return inside)", Pos: vc.ct.Source, Result: "unsat"}
		if !ok {
			ob.Result, ob.Raw = "sat", why
		}
		vc.obs = append(vc.obs, ob)
	}
	if fr.top {
		for _, c := range invs {
			goal := fr.evalInvariant(c, b, phiIn, st)
			vc.oblige(fmt.Sprintf("loop%d/entry:%s", li.ord, clauseLabel(c)), "inv-entry", c.Props, c.Line, reach, goal, c.Expr)
		}
	}
	// 2. havoc
	st2 := st.Clone()
	ms := fr.loopMods(li)
	topAtEntry := st.Get(g, "heapTop")
	for _, k := range sortedKeys(ms.full) {
		old := st.Get(g, k)
		nv := vc.fresh(compSym(k)+"_h", g.compSort(k))
		nv.Ty = old.Ty
		st2.Set(k, nv)
		if k == "heapTop" {
			vc.assume(Le(old, nv))
		}
	}
	for _, k := range sortedKeys(ms.fresh) {
		if ms.full[k] {
			continue
		}
		// only cells allocated inside the loop change: everything that existed at loop entry keeps its value
		old := st.Get(g, k)
		nv := vc.fresh(compSym(k)+"_h", g.compSort(k))
		st2.Set(k, nv)
		r := Const("?r", SInt)
		vc.assume(Forall([]*Term{r}, Implies(Le(r, topAtEntry), Eq(Select(nv, r), Select(old, r))), Select(nv, r)))
	}
	phiH := map[*ssa.Phi]*Term{}
	for _, in := range b.Instrs {
		phi, ok := in.(*ssa.Phi)
		if !ok {
			break
		}
		if g.sortOf(phi.Type()) == SNone {
			continue
		}
		nv := vc.fresh(fr.name(phi.Name())+"_h", g.sortOf(phi.Type()))
		nv.Ty = phi.Type()
		phiH[phi] = nv
		fr.vals[phi] = nv
		vc.typeFacts(nv, phi.Type(), st2)
	}
	// automatic invariant for "range over slice" index loops: -1 <= idx < len
	for phi, nv := range phiH {
		if phi.Comment == "rangeindex" {
			if lim := rangeLimit(b, phi); lim != nil {
				vc.assume(Implies(reach, And(mk(">=", SBool, nv, IntLit(-1)), Lt(nv, fr.val(lim)))))
			}
		}
	}
	// 3. assume invariant
	for _, c := range invs {
		vc.assume(Implies(reach, fr.evalInvariant(c, b, phiH, st2)))
	}
	// a loop of an inlined helper without invariants is summarised by the havoc of what it modifies (sound, imprecise)
	return st2, reach
}

func eachProps(cs []*Clause) []string {
	seen := map[string]bool{}
	var out []string
	for _, c := range cs {
		for _, p := range c.Props {
			if !seen[p] {
				seen[p] = true
				out = append(out, p)
			}
		}
	}
	return out
}

// rangeComplete checks the SSA shape of a `for i, x := range slice` loop that is never left early.
func rangeComplete(li *loopInfo) (bool, string) {
	h := li.header
	var idx *ssa.Phi
	for _, in := range h.Instrs {
		if phi, ok := in.(*ssa.Phi); ok && phi.Comment == "rangeindex" {
			idx = phi
		}
	}
	if idx == nil {
		return false, "the loop has no range index (it is not a `for i := range s` loop)"
	}
	var inc *ssa.BinOp
	for i, e := range idx.Edges {
		pred := h.Preds[i]
		if isBackEdge(pred, h) {
			bo, ok := e.(*ssa.BinOp)
			if !ok || bo.Op != token.ADD || bo.X != idx {
				return false, "the index is not incremented by one on every back edge"
			}
			if c, ok := bo.Y.(*ssa.Const); !ok || c.Int64() != 1 {
				return false, "the index step is not 1"
			}
			inc = bo
		} else {
			if c, ok := e.(*ssa.Const); !ok || c.Int64() != -1 {
				return false, "the index does not start at 0"
			}
		}
	}
	iff, ok := h.Instrs[len(h.Instrs)-1].(*ssa.If)
	if !ok {
		return false, "the loop header does not end in the bound test"
	}
	cmp, ok := iff.Cond.(*ssa.BinOp)
	if !ok || cmp.Op != token.LSS || cmp.X != inc {
		return false, "the loop condition is not index < len"
	}
	call, ok := cmp.Y.(*ssa.Call)
	if !ok {
		return false, "the loop bound is not len(slice)"
	}
	if b, ok := call.Call.Value.(*ssa.Builtin); !ok || b.Name() != "len" {
		return false, "the loop bound is not len(slice)"
	}
	for b := range li.body {
		if b == h {
			continue
		}
		for _, s := range b.Succs {
			if !li.body[s] {
				return false, fmt.Sprintf("the loop is left early from block %d (break or return inside the loop)", b.Index)
			}
		}
		if len(b.Succs) == 0 {
			if _, isRet := b.Instrs[len(b.Instrs)-1].(*ssa.Return); isRet {
				return false, fmt.Sprintf("return inside the loop (block %d)", b.Index)
			}
		}
	}
	return true, ""
}

// rangeLimit finds the len value the rangeindex phi is compared with.
func rangeLimit(b *ssa.BasicBlock, phi *ssa.Phi) ssa.Value {
	for _, in := range b.Instrs {
		if bo, ok := in.(*ssa.BinOp); ok && bo.Op == token.LSS {
			if inc, ok := bo.X.(*ssa.BinOp); ok && inc.X == phi {
				return bo.Y
			}
		}
	}
	return nil
}

func clauseLabel(c *Clause) string {
	if c.Label != "" {
		return c.Label
	}
	return "inv"
}

func (fr *Frame) invariants(li *loopInfo) []*Clause {
	if !fr.top {
		if ct := fr.vc.g.spec.Contracts[shortFnName(fr.fn)]; ct != nil {
			return ct.Invariants[li.ord]
		}
		return nil
	}
	return fr.vc.ct.Invariants[li.ord]
}

// checkBackEdges emits the preservation obligations for back edges leaving block p.
func (fr *Frame) checkBackEdges(p *ssa.BasicBlock) {
	vc := fr.vc
	for _, h := range p.Succs {
		if !isBackEdge(p, h) {
			continue
		}
		li := fr.loops[h]
		if li == nil || !fr.top {
			continue
		}
		guard := vc.define("backedge", fr.edgeCond(p, h))
		// vacuity probe: the end of the loop body must be reachable under the assumed invariants
		vc.canary(fmt.Sprintf("loop%d/backedge@b%d", li.ord, backEdgeOrdinal(h, p)), guard)
		phiB := map[*ssa.Phi]*Term{}
		for _, in := range h.Instrs {
			phi, ok := in.(*ssa.Phi)
			if !ok {
				break
			}
			if vc.g.sortOf(phi.Type()) == SNone {
				continue
			}
			phiB[phi] = fr.val(phi.Edges[predIndex(h, p)])
		}
		suffix := ""
		if n := countBackEdges(h); n > 1 {
			suffix = fmt.Sprintf("@b%d", backEdgeOrdinal(h, p))
		}
		// case splits: conditions over the values of the iteration that just finished
		type caseCond struct {
			name string
			cond *Term
		}
		var cases []caseCond
		if fr.top && len(vc.ct.Cases[li.ord]) > 0 {
			term := p.Instrs[len(p.Instrs)-1]
			var all []*Term
			for _, cc := range vc.ct.Cases[li.ord] {
				env := fr.env0.child()
				env.st = fr.out[p]
				env.where = cc.Line
				env.old = fr.env0
				env.resolveAddr = fr.allocRef
				env.resolve = func(name string) (*Term, bool) { return fr.resolveIter(name, term, fr.out[p]) }
				t, err := env.Parse(cc.Expr)
				if err != nil {
					panic(&exprError{err.Error()})
				}
				ct := vc.define("case_"+cc.Label, t)
				cases = append(cases, caseCond{cc.Label, ct})
				all = append(all, ct)
			}
			cases = append(cases, caseCond{"other", Not(Or(all...))})
		}
		for _, c := range fr.invariants(li) {
			goal := fr.evalInvariant(c, h, phiB, fr.out[p])
			if len(cases) > 0 && len(c.Props) > 0 && c.Label != "" && strings.HasPrefix(c.Label, "relation") {
				// one obligation per case, so that a known finding in one case cannot mask a new violation in another
				for _, cc := range cases {
					vc.obligeNoAssume(fmt.Sprintf("loop%d/preserve:%s%s[%s]", li.ord, clauseLabel(c), suffix, cc.name), "inv-preserve", c.Props, c.Line, And(guard, cc.cond), goal, c.Expr)
				}
				vc.assume(Implies(guard, goal))
				continue
			}
			vc.oblige(fmt.Sprintf("loop%d/preserve:%s%s", li.ord, clauseLabel(c), suffix), "inv-preserve", c.Props, c.Line, guard, goal, c.Expr)
		}
		// per-iteration clauses: evaluated in the state at the end of this iteration, over the values of this iteration
		for _, c := range vc.ct.Each[li.ord] {
			env := fr.env0.child()
			env.st = fr.out[p]
			env.where = c.Line
			env.old = fr.env0
			term := p.Instrs[len(p.Instrs)-1]
			env.resolveAddr = fr.allocRef
			env.resolve = func(name string) (*Term, bool) {
				if name == "_idx" {
					for phi, t := range phiB {
						if phi.Comment == "rangeindex" {
							return t, true // index of the iteration that just finished
						}
					}
				}
				return fr.resolveIter(name, term, fr.out[p])
			}
			t, err := env.Parse(c.Expr)
			if err != nil {
				panic(&exprError{err.Error()})
			}
			vc.obligeNoAssume(fmt.Sprintf("loop%d/each:%s%s", li.ord, clauseLabel(c), suffix), "each-iteration", c.Props, c.Line, guard, t, c.Expr)
		}
	}
}

func countBackEdges(h *ssa.BasicBlock) int {
	n := 0
	for _, p := range h.Preds {
		if isBackEdge(p, h) {
			n++
		}
	}
	return n
}

func backEdgeOrdinal(h, p *ssa.BasicBlock) int {
	var latches []*ssa.BasicBlock
	for _, q := range h.Preds {
		if isBackEdge(q, h) {
			latches = append(latches, q)
		}
	}
	sort.Slice(latches, func(i, j int) bool { return blockPos(latches[i]) < blockPos(latches[j]) })
	for i, q := range latches {
		if q == p {
			return i + 1
		}
	}
	return 0
}

func blockPos(b *ssa.BasicBlock) token.Pos {
	best := token.Pos(1 << 40)
	for _, in := range b.Instrs {
		if p := in.Pos(); p.IsValid() && p < best {
			best = p
		}
		if d, ok := in.(*ssa.DebugRef); ok {
			if p := d.Expr.Pos(); p.IsValid() && p < best {
				best = p
			}
		}
	}
	if best == token.Pos(1<<40) {
		// empty latch: use predecessors
		for _, p := range b.Preds {
			if !isBackEdge(p, b) {
				if q := blockPos(p); q < best {
					best = q + 1
				}
			}
		}
	}
	return best
}

// evalInvariant evaluates an invariant clause at loop header h with the given phi values and state.
func (fr *Frame) evalInvariant(c *Clause, h *ssa.BasicBlock, phis map[*ssa.Phi]*Term, st *State) *Term {
	env := fr.env0.child()
	env.st = st
	env.where = c.Line
	env.old = fr.env0
	env.resolve = func(name string) (*Term, bool) {
		return fr.resolveLocal(name, h, phis, st)
	}
	env.resolveAddr = fr.allocRef
	t, err := env.Parse(c.Expr)
	if err != nil {
		panic(&exprError{err.Error()})
	}
	if t.Sort != SBool {
		panic(&exprError{fmt.Sprintf("%s: invariant is not boolean", c.Line)})
	}
	return t
}

// resolveLocal maps a source-level local variable name to a term at loop header h.
func (fr *Frame) resolveLocal(name string, h *ssa.BasicBlock, phis map[*ssa.Phi]*Term, st *State) (*Term, bool) {
	// 1. header phi with that name
	for phi, t := range phis {
		if phi.Comment == name {
			return t, true
		}
		if name == "_idx" && phi.Comment == "rangeindex" {
			// number of completed iterations of a range loop = index of the element about to be visited
			return Add(t, IntLit(1)), true
		}
	}
	// 2. values named by debug info
	var cands []ssa.Value
	seen := map[ssa.Value]bool{}
	for _, b := range fr.fn.Blocks {
		for _, in := range b.Instrs {
			d, ok := in.(*ssa.DebugRef)
			if !ok {
				continue
			}
			id, ok := d.Expr.(*ast.Ident)
			if !ok || id.Name != name || d.IsAddr {
				continue
			}
			if !seen[d.X] {
				seen[d.X] = true
				cands = append(cands, d.X)
			}
		}
	}
	// several SSA values may carry the name (initial value, loop phis of enclosing loops, ...): the one that reaches the
	// header is the one defined deepest in the dominator tree
	var bestT *Term
	var bestBlk *ssa.BasicBlock
	bestIdx := -1
	for _, v := range cands {
		t, ok := fr.evalPure(v, h, phis, 0)
		if !ok {
			continue
		}
		var blk *ssa.BasicBlock
		idx := -1
		if in, isIn := v.(ssa.Instruction); isIn {
			blk = in.Block()
			for k, x := range blk.Instrs {
				if x == in {
					idx = k
				}
			}
		}
		better := bestT == nil
		if !better && blk != nil {
			if bestBlk == nil {
				better = true
			} else if blk == bestBlk {
				better = idx > bestIdx
			} else if bestBlk.Dominates(blk) {
				better = true
			}
		}
		if better {
			bestT, bestBlk, bestIdx = t, blk, idx
		}
	}
	if bestT != nil {
		return bestT, true
	}
	// 3. address-taken local
	for _, b := range fr.fn.Blocks {
		for _, in := range b.Instrs {
			if a, ok := in.(*ssa.Alloc); ok && a.Comment == name {
				if ref, ok := fr.vals[a]; ok {
					el := a.Type().(*types.Pointer).Elem()
					t := Select(st.Get(fr.vc.g, "Mem:"+string(fr.vc.g.sortOf(el))), ref)
					return fr.vc.g.withType(t, el), true
				}
			}
		}
	}
	return nil, false
}

// evalPure evaluates a value that is either already defined before the loop header, a header phi, or a
// pure arithmetic combination of those computed in the header block.
func (fr *Frame) evalPure(v ssa.Value, h *ssa.BasicBlock, phis map[*ssa.Phi]*Term, depth int) (*Term, bool) {
	if depth > 6 {
		return nil, false
	}
	if phi, ok := v.(*ssa.Phi); ok {
		if t, ok := phis[phi]; ok {
			return t, true
		}
	}
	if in, ok := v.(ssa.Instruction); ok {
		blk := in.Block()
		if blk == h {
			if bo, ok := v.(*ssa.BinOp); ok {
				x, ok1 := fr.evalPure(bo.X, h, phis, depth+1)
				y, ok2 := fr.evalPure(bo.Y, h, phis, depth+1)
				if ok1 && ok2 {
					return fr.binop(bo, x, y), true
				}
			}
			return nil, false
		}
		if blk != nil && fr.loops[h] != nil && fr.loops[h].body[blk] {
			return nil, false // per-iteration value
		}
		if blk != nil && !blk.Dominates(h) {
			return nil, false
		}
	}
	if t, ok := fr.vals[v]; ok {
		return t, true
	}
	switch c := v.(type) {
	case *ssa.Const:
		return fr.vc.g.constTerm(c), true
	}
	return nil, false
}

// ---- returns ----------------------------------------------------------------------------------

func (fr *Frame) mergeReturns() (*Term, []*Term, *State) {
	vc := fr.vc
	var guards []*Term
	for _, r := range fr.rets {
		guards = append(guards, r.guard)
	}
	guard := vc.define(fr.name("returns"), Or(guards...))
	n := len(fr.rets[0].results)
	results := make([]*Term, n)
	for j := 0; j < n; j++ {
		var t *Term
		for i := len(fr.rets) - 1; i >= 0; i-- {
			v := fr.rets[i].results[j]
			if t == nil {
				t = v
			} else {
				t = Ite(fr.rets[i].guard, v, t)
			}
		}
		results[j] = vc.define(fr.name(fmt.Sprintf("result%d", j)), t)
		results[j].Ty = fr.rets[0].results[j].Ty
	}
	st := NewState()
	comps := map[string]bool{}
	for _, r := range fr.rets {
		for k := range r.st.m {
			comps[k] = true
		}
	}
	for _, k := range sortedKeys(comps) {
		var t *Term
		for i := len(fr.rets) - 1; i >= 0; i-- {
			v := fr.rets[i].st.Get(vc.g, k)
			if t == nil {
				t = v
			} else {
				t = Ite(fr.rets[i].guard, v, t)
			}
		}
		d := vc.define(compSym(k)+"_fin", t)
		d.Ty = fr.rets[0].st.Get(vc.g, k).Ty
		st.Set(k, d)
	}
	return guard, results, st
}

// allocRef resolves &name to the reference of the address-taken local `name`.
func (fr *Frame) allocRef(name string) (*Term, bool) {
	for _, b := range fr.fn.Blocks {
		for _, in := range b.Instrs {
			if a, ok := in.(*ssa.Alloc); ok && a.Comment == name {
				if ref, ok := fr.vals[a]; ok {
					return ref, true
				}
			}
		}
	}
	return nil, false
}

func (vc *FnVC) resultEnv(fr *Frame, results []*Term, st *State) *Env {
	env := fr.env0.child()
	env.resolveAddr = fr.allocRef
	env.st = st
	env.old = fr.env0
	sig := fr.fn.Signature
	for i, r := range results {
		env.vars[fmt.Sprintf("result%d", i)] = r
		if i == 0 {
			env.vars["result"] = r
		}
		if sig.Results().Len() > i {
			if n := sig.Results().At(i).Name(); n != "" && n != "_" {
				env.vars[n] = r
			}
		}
		if i < len(vc.ct.Results) {
			env.vars[vc.ct.Results[i]] = r
		}
	}
	return env
}

func (vc *FnVC) emitPost(fr *Frame, guard *Term, results []*Term, st *State) {
	env := vc.resultEnv(fr, results, st)
	for _, l := range vc.ct.PostLocals {
		e2 := *env
		e2.where = l.Line
		t, err := e2.Parse(l.Expr)
		if err != nil {
			panic(&exprError{err.Error()})
		}
		env.vars[l.Var] = vc.define("ploc_"+l.Var, t)
	}
	for i, c := range vc.ct.Ensures {
		e2 := *env
		e2.where = c.Line
		t, err := e2.Parse(c.Expr)
		if err != nil {
			panic(&exprError{err.Error()})
		}
		label := c.Label
		if label == "" {
			label = fmt.Sprintf("%d", i+1)
		}
		vc.obligeNoAssume("post:"+label, "post", c.Props, c.Line, guard, t, c.Expr)
	}
	for _, d := range vc.ct.Defines {
		e2 := *env
		e2.where = d.Line
		t, err := e2.Parse(d.Expr)
		if err != nil {
			panic(&exprError{err.Error()})
		}
		label := d.Label
		if label == "" {
			label = d.Var
		}
		vc.obligeNoAssume("defines:"+label, "post", d.Props, d.Line, guard, t, d.Var+" := "+d.Expr)
	}
	vc.emitFrame(fr, guard, st)
	// "sets G := e" of an own contract is also a postcondition: final G equals e over the entry state
	for _, c := range vc.ct.Sets {
		e2 := *env
		e2.st = fr.entry
		e2.where = c.Line
		t, err := e2.Parse(c.Expr)
		if err != nil {
			panic(&exprError{err.Error()})
		}
		comp := compOfAssign(vc.g, c.Var)
		if strings.HasPrefix(comp, "g:") {
			continue // ghost bookkeeping is defined by the contract; there is no code to compare it with
		}
		vc.obligeNoAssume("post:sets:"+c.Var, "post", c.Props, c.Line, guard, Eq(st.Get(vc.g, comp), t), c.Var+" := "+c.Expr)
	}
}

// emitFrame: with a declared frame (assigns/allocs), every other component the body touched must be unchanged
// (scalars) or changed at freshly allocated references only (heap arrays).
func (vc *FnVC) emitFrame(fr *Frame, guard *Term, fin *State) {
	if !vc.ct.HasAssigns {
		return
	}
	g := vc.g
	full := map[string]bool{}
	for _, a := range vc.ct.Assigns {
		full[compOfAssign(g, a)] = true
	}
	for _, s := range vc.ct.Sets {
		full[compOfAssign(g, s.Var)] = true
	}
	top0 := fr.entry.Get(g, "heapTop")
	for _, k := range fin.Comps() {
		if full[k] || k == "heapTop" || k == "GoMaps" {
			continue
		}
		a, b := fr.entry.Get(g, k), fin.Get(g, k)
		if a.String() == b.String() {
			continue
		}
		if isHeapArray(k) {
			r := vc.fresh("frame_r", SInt)
			vc.obligeNoAssume("frame:"+k, "frame", nil, vc.ct.Source, guard, Implies(And(mk(">=", SBool, r, IntLit(0)), Le(r, top0)), Eq(Select(b, r), Select(a, r))), "only freshly allocated cells of "+k+" may change")
		} else {
			vc.obligeNoAssume("frame:"+k, "frame", nil, vc.ct.Source, guard, Eq(b, a), k+" is not in the assigns clause and must be unchanged")
		}
	}
}

func (vc *FnVC) obligeNoAssume(name, kind string, props []string, pos string, guard, goal *Term, clause string) {
	n := len(vc.log)
	vc.oblige(name, kind, props, pos, guard, goal, clause)
	vc.log = vc.log[:n]
	vc.obs[len(vc.obs)-1].Assumed = false
}

// resolveIter maps a source-level local name to its value in the iteration that ends at latch terminator `at`:
// the debug reference with the greatest source position among those whose value is defined (per-iteration values included).
func (fr *Frame) resolveIter(name string, at ssa.Instruction, st *State) (*Term, bool) {
	var best ssa.Value
	var bestPos token.Pos = -1
	// innermost loop that contains the latch: names declared inside it win over same-named locals of other loops
	var body map[*ssa.BasicBlock]bool
	for _, li := range fr.loops {
		if li.body[at.Block()] && (body == nil || len(li.body) < len(body)) {
			body = li.body
		}
	}
	for pass := 0; pass < 2 && best == nil; pass++ {
		for _, b := range fr.fn.Blocks {
			if pass == 0 && (body == nil || !body[b]) {
				continue
			}
			for _, in := range b.Instrs {
				d, ok := in.(*ssa.DebugRef)
				if !ok || d.IsAddr {
					continue
				}
				id, ok := d.Expr.(*ast.Ident)
				if !ok || id.Name != name {
					continue
				}
				if _, have := fr.vals[d.X]; !have {
					if _, isConst := d.X.(*ssa.Const); !isConst {
						continue
					}
				}
				// the defining occurrence (declaration) is the one we want: smallest position
				if p := id.Pos(); bestPos < 0 || p < bestPos {
					best, bestPos = d.X, p
				}
			}
		}
	}
	if best != nil {
		return fr.val(best), true
	}
	return fr.resolveAt(name, at, st)
}

// resolveAt maps a source-level local variable name to its value at instruction `at`: the latest debug
// reference to that name that precedes the instruction and whose value is available there.
func (fr *Frame) resolveAt(name string, at ssa.Instruction, st *State) (*Term, bool) {
	var best ssa.Value
	var bestPos token.Pos
	for _, b := range fr.fn.Blocks {
		for _, in := range b.Instrs {
			d, ok := in.(*ssa.DebugRef)
			if !ok || d.IsAddr {
				continue
			}
			id, ok := d.Expr.(*ast.Ident)
			if !ok || id.Name != name {
				continue
			}
			if _, have := fr.vals[d.X]; !have {
				if _, isConst := d.X.(*ssa.Const); !isConst {
					continue
				}
			}
			if vi, ok := d.X.(ssa.Instruction); ok && vi.Block() != nil && at.Block() != nil && !vi.Block().Dominates(at.Block()) {
				continue
			}
			if p := id.Pos(); p <= at.Pos() && p >= bestPos {
				best, bestPos = d.X, p
			}
		}
	}
	if best != nil {
		return fr.val(best), true
	}
	for _, b := range fr.fn.Blocks {
		for _, in := range b.Instrs {
			if a, ok := in.(*ssa.Alloc); ok && a.Comment == name {
				if ref, ok := fr.vals[a]; ok {
					el := a.Type().(*types.Pointer).Elem()
					t := Select(st.Get(fr.vc.g, "Mem:"+string(fr.vc.g.sortOf(el))), ref)
					return fr.vc.g.withType(t, el), true
				}
			}
		}
	}
	return nil, false
}
