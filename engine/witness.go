package main

// Witness search: concrete inputs that make the real code violate a property (filled in per property).

func findWitness(s *Session, prop string, ob *Obligation) *Witness { return nil }

func runWitness(prop string, input map[string]any) (string, bool, error) {
	return "no replay harness for this property yet", false, nil
}
