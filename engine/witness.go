package main

// Witness search and replay: concrete inputs that make the REAL code (current working tree of /repo)
// violate a property. The harness files of /verif/replay are injected with `go test -overlay`; nothing is
// written into /repo.

import (
	"bytes"
	"context"
	"encoding/json"
	"fmt"
	"os"
	"os/exec"
	"path/filepath"
	"strings"
	"time"
)

type harnessReply struct {
	Violated bool           `json:"violated"`
	Observed string         `json:"observed"`
	Input    map[string]any `json:"input"`
	Tried    int            `json:"tried"`
	Error    string         `json:"error"`
}

// runHarnessRaw returns the raw JSON of the harness's GOVC-RESULT line.
func runHarnessRaw(req map[string]any) (*harnessReply, string, error) {
	r, txt, err := runHarness(req)
	if err != nil {
		return nil, txt, err
	}
	for _, line := range strings.Split(txt, "\n") {
		if strings.HasPrefix(line, "GOVC-RESULT ") {
			return r, strings.TrimPrefix(line, "GOVC-RESULT "), nil
		}
	}
	return r, txt, fmt.Errorf("no result line")
}

func runHarness(req map[string]any) (*harnessReply, string, error) {
	dir, err := os.MkdirTemp("", "govc-replay")
	if err != nil {
		return nil, "", err
	}
	defer os.RemoveAll(dir)
	files, _ := filepath.Glob(filepath.Join(verifDir, "replay", "*_test.go.txt"))
	repl := map[string]string{}
	for _, f := range files {
		base := strings.TrimSuffix(filepath.Base(f), ".txt")
		repl[filepath.Join(repoDir, "src", "zz_govc_"+base)] = f
	}
	ov, _ := json.Marshal(map[string]any{"Replace": repl})
	ovPath := filepath.Join(dir, "overlay.json")
	if err := os.WriteFile(ovPath, ov, 0o644); err != nil {
		return nil, "", err
	}
	rq, _ := json.Marshal(req)
	ctx, cancel := context.WithTimeout(context.Background(), 180*time.Second)
	defer cancel()
	cmd := exec.CommandContext(ctx, "go", "test", "-overlay", ovPath, "-vet=off", "-v", "-count=1", "-timeout", "120s", "-run", "^TestGovcReplay$", "./src")
	cmd.Dir = repoDir
	cmd.Env = append(os.Environ(), "GOFLAGS=-mod=mod", "GOPROXY=off", "GOVC_REPLAY="+string(rq), "TMPDIR="+dir)
	var out bytes.Buffer
	cmd.Stdout = &out
	cmd.Stderr = &out
	runErr := cmd.Run()
	txt := out.String()
	for _, line := range strings.Split(txt, "\n") {
		if strings.HasPrefix(line, "GOVC-RESULT ") {
			var r harnessReply
			if err := json.Unmarshal([]byte(strings.TrimPrefix(line, "GOVC-RESULT ")), &r); err != nil {
				return nil, txt, err
			}
			if r.Error != "" {
				return nil, txt, fmt.Errorf("%s", r.Error)
			}
			return &r, txt, nil
		}
	}
	if len(txt) > 3000 {
		txt = txt[len(txt)-3000:]
	}
	return nil, txt, fmt.Errorf("replay harness produced no result (go test: %v)", runErr)
}

// findWitness searches the property's corpus on the real code for an input that violates the property.
func findWitness(s *Session, prop string, ob *Obligation) *Witness {
	if os.Getenv("GOVC_NO_WITNESS") != "" {
		return nil
	}
	r, _, err := runHarness(map[string]any{"mode": "search", "property": prop, "hint": ob.Name})
	if err != nil || r == nil || !r.Violated {
		return nil
	}
	return &Witness{Input: r.Input, Observed: r.Observed}
}

func runWitness(prop string, input map[string]any) (string, bool, error) {
	r, raw, err := runHarness(map[string]any{"mode": "run", "input": input})
	if err != nil {
		return raw, false, err
	}
	return r.Observed, r.Violated, nil
}
