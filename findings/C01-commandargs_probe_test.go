package main
import ("testing";"strings")
func TestProbeCommandArgs(t *testing.T) {
	line := `{"t":{"$date":"2025-01-01T00:00:00.000+00:00"},"s":"E","c":"COMMAND","id":21962,"ctx":"conn5","msg":"Assertion while executing command","attr":{"command":"find","db":"shop","commandArgs":{"find":"orders","filter":{"customer":"SECRETX"},"$db":"shop"},"error":"BadValue: x"}}`
	m, err := RedactMongoLog(line)
	if err != nil { t.Fatal(err) }
	b, _ := MarshalOrdered(m)
	if strings.Contains(string(b), "SECRETX") { t.Fatalf("leak: %s", b) }
}
