package main
import ("testing";"strings")
func TestProbeLike(t *testing.T) {
	for _, k := range []string{"numBuckets","type","index","score","limit","name"} {
		line := `{"c":"COMMAND","msg":"Slow query","attr":{"ns":"d.c","command":{"aggregate":"c","pipeline":[{"$search":{"index":"default","moreLikeThis":{"like":{"`+k+`":"SECRETX","title":"SECRETY"}}}}],"$db":"d"}}}`
		m, err := RedactMongoLog(line)
		if err != nil { t.Fatal(err) }
		b, _ := MarshalOrdered(m)
		t.Logf("%s -> leak=%v %s", k, strings.Contains(string(b), "SECRETX"), string(b)[120:])
	}
}
