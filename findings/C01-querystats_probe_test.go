package main
import ("testing";"strings")
func TestProbeQueryStats(t *testing.T) {
	line := `{"c":"COMMAND","msg":"Slow query","attr":{"ns":"admin.$cmd","command":{"aggregate":1,"pipeline":[{"$queryStats":{"transformIdentifiers":{"algorithm":"hmac-sha-256","hmacKey":{"$binary":{"base64":"SECRETXSECRETXSECRETX=","subType":"8"}}}}}],"$db":"admin"}}}`
	m, err := RedactMongoLog(line)
	if err != nil { t.Fatal(err) }
	b, _ := MarshalOrdered(m)
	t.Log(string(b))
	if strings.Contains(string(b), "SECRETX") { t.Fatalf("leak") }
}
