package main
import ("testing";"bytes";"strings")
func TestProbeTrailing(t *testing.T) {
	in := "{\"a\":1} trailing secret\n{\"a\":1}{\"b\":2}\n{\"a\":1} ]\n  {\"c\":3}  \t\n{\"d\":4}\n"
	var out bytes.Buffer
	if err := ProcessMongoLogFileFromReader(strings.NewReader(in), &out, nil); err != nil { t.Fatal(err) }
	if got, want := out.String(), "{\"c\":3}\n{\"d\":4}\n"; got != want { t.Fatalf("got %q want %q", got, want) }
}
