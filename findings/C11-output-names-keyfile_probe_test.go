package main
import ("testing";"os";"os/exec";"path/filepath";"bytes")
func TestProbeKeyAsOutput(t *testing.T) {
	if os.Getenv("PROBE_CHILD") == "1" { os.Args = append([]string{"anonymongo"}, splitArgs(os.Getenv("PROBE_ARGS"))...); main(); return }
	dir := t.TempDir()
	key := filepath.Join(dir, "k.key"); in := filepath.Join(dir, "in.log")
	os.WriteFile(in, []byte(`{"c":"COMMAND","msg":"Slow query","attr":{"ns":"d.c","command":{"find":"c","filter":{"a":"SECRET"},"$db":"d"}}}`+"\n"), 0644)
	run := func(args string) int { c := exec.Command(os.Args[0], "-test.run", "TestProbeKeyAsOutput"); c.Env = append(os.Environ(), "PROBE_CHILD=1", "PROBE_ARGS="+args); c.Stdin = nil; err := c.Run(); if ee, ok := err.(*exec.ExitError); ok { return ee.ExitCode() }; if err != nil { return -1 }; return 0 }
	if rc := run("redact|"+in+"|--encrypt|-q|"+key+"|-o|"+filepath.Join(dir,"out.log")); rc != 0 { t.Fatalf("first run rc=%d", rc) }
	before, _ := os.ReadFile(key)
	rc := run("redact|"+in+"|--encrypt|-q|"+key+"|-o|"+key)
	after, _ := os.ReadFile(key)
	if !bytes.Equal(before, after) { t.Fatalf("key file changed (rc=%d): %d -> %d bytes", rc, len(before), len(after)) }
	if rc == 0 { t.Fatalf("accepted") }
}
func splitArgs(s string) []string { var out []string; cur := ""; for _, r := range s { if r == '|' { out = append(out, cur); cur = "" } else { cur += string(r) } }; return append(out, cur) }
