package main
import ("testing";"regexp";"strings")
func TestProbeMergeShort(t *testing.T) {
	SetRedactNamespaces(true)
	SetRedactedFieldsRegexp(regexp.MustCompile("^ssn$").String())
	defer SetRedactNamespaces(false)
	defer SetRedactedFieldsRegexp("")
	line := `{"c":"COMMAND","msg":"Slow query","attr":{"ns":"d.c","command":{"aggregate":"c","pipeline":[{"$merge":"mergetarget"}],"$db":"d"}}}`
	m, err := RedactMongoLog(line)
	if err != nil { t.Fatal(err) }
	b, _ := MarshalOrdered(m)
	if strings.Contains(string(b), "mergetarget") { t.Fatalf("leak: %s", b) }
	t.Log(string(b))
}
