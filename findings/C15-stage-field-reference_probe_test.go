package main
import ("testing";"strings")
func TestProbeGroupRef(t *testing.T) {
	SetEagerRedactionPaths([]string{"shop"}); defer SetEagerRedactionPaths(nil)
	line := `{"c":"COMMAND","msg":"Slow query","attr":{"ns":"shop.orders","command":{"aggregate":"orders","pipeline":[{"$match":{"custName":"x"}},{"$group":{"_id":"$custName","n":{"$sum":1}}},{"$project":{"alias":"$qty"}}],"$db":"shop"}}}`
	m, err := RedactMongoLog(line)
	if err != nil { t.Fatal(err) }
	b, _ := MarshalOrdered(m)
	out := string(b)
	t.Log(out)
	if !strings.Contains(out, `"`+HashName("_id")+`":"`+HashName("custName")+`"`) { t.Fatalf("the reference $custName did not receive the pseudonym of custName") }
	if !strings.Contains(out, `:"`+HashName("qty")+`"`) { t.Fatalf("the reference $qty did not receive the pseudonym of qty") }
}
