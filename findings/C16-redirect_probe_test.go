package main
import ("testing";"net/http";"net/http/httptest";"context";"sync";"strings")
func TestProbeRedirect(t *testing.T) {
	var mu sync.Mutex; var foreign []string
	other := httptest.NewServer(http.HandlerFunc(func(w http.ResponseWriter, r *http.Request) { mu.Lock(); foreign = append(foreign, r.Method+" "+r.URL.Path+" auth="+r.Header.Get("Authorization")); mu.Unlock(); w.Write([]byte("foreign bytes")) }))
	defer other.Close()
	api := httptest.NewServer(http.HandlerFunc(func(w http.ResponseWriter, r *http.Request) {
		if strings.HasSuffix(r.URL.Path, ".gz") { http.Redirect(w, r, other.URL+"/elsewhere/log.gz", http.StatusFound); return }
		w.Header().Set("Content-Type", "application/json")
		w.Write([]byte(`{"connectionStrings":{"standard":"mongodb://h0.example.net:27017"}}`))
	}))
	defer api.Close()
	t.Setenv("TMPDIR", t.TempDir())
	c := NewAtlasClient(nil); c.BaseURL = api.URL
	files, err := c.DownloadClusterLogs(context.Background(), "pub", "priv", "p1", "c1", 1, 2)
	if err == nil { c.DeleteClusterLogs(context.Background(), files) }
	mu.Lock(); defer mu.Unlock()
	if len(foreign) > 0 { t.Fatalf("requests left the API endpoint: %v (err=%v)", foreign, err) }
}
