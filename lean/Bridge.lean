/-
  Bridge.lean — the bridging lemmas L-shape, L-clean, L-ni, L-fix of DESIGN.md, mechanised (core Lean 4, no Mathlib).

  The contracts of the walkers prove ONE-LEVEL relations (prelude.vc: elemrelq-def, elemrela-def, keyokq-def, leafok-def,
  the accumulators QAcc / per-iteration ElemRelA); the children of a node are related by atoms (RelQ, RelA) that only the
  callee's own `defines` clause introduces — so an atom holds exactly when the one-level relation holds one level down.
  Read as a definition by recursion over the JSON tree that is the relation `relV` below. This file proves, by structural
  induction over the tree, what the property statements say about WHOLE trees:

    L-shape : related trees have the same shape (kinds, lengths, key order; keys equal when field names are not renamed)  (C03)
    L-clean : every string leaf of the output is admissible at its position                                               (C01)
    L-ni    : with the exact leaf function, trees that differ only inside sensitive leaves of one class give equal output  (C02)
    L-fix   : with the exact leaf function, the output is a fixed point                                                    (C19)

  What stays outside Lean: that these definitions mirror the prelude's defining axioms (short, read off by hand), that the
  SMT leaf lemmas used as hypotheses here (`leaf_class`, `leaf_idem`: obligations lemma/* of C02 / C19) are the same
  statements, and OWN (an atom proved at call time still describes the container later).
-/

namespace Bridge

mutual
  inductive Val where
    | nil  : Val
    | str  (s : String) : Val
    | num  (n : String) : Val
    | bool (b : Bool)   : Val
    | map  (es : Entries) : Val
    | arr  (xs : Vals)    : Val
  inductive Entries where
    | nil  : Entries
    | cons (k : String) (v : Val) (rest : Entries) : Entries
  inductive Vals where
    | nil  : Vals
    | cons (v : Val) (rest : Vals) : Vals
end

open Val

/-- what the relations are parametrised by (the `Cfg` of the prelude, the policy, the spec functions) -/
structure Ctx where
  fn        : Prop                          -- field names are renamed for this line
  hash      : String → String               -- HashNameSpec(replacement, ·)
  dollar    : String → Prop                 -- the string starts with '$'
  polExempt : String → Prop                 -- the key is policy-exempt
  leafOK    : String → Val → Val → Prop     -- LeafOKg(c, iss, k, ·, ·)  (leafok-def)
  okString  : String → String → Prop        -- okString k s : the string s is admissible in the output under key k
                                            -- (placeholder of its class, ciphertext, or kept where the statement allows it)

def isLeaf : Val → Prop
  | .map _ => False
  | .arr _ => False
  | _ => True

def keyOK (c : Ctx) (k j : String) : Prop := j = k ∨ (c.fn ∧ j = c.hash k)

/-- one level of elemrelq-def / elemrela-def for a value that is neither a document nor an array -/
def leafRel (c : Ctx) (k : String) (v w : Val) : Prop :=
  match v with
  | .str s => (c.dollar s ∧ (w = .str s ∨ (c.fn ∧ w = .str (c.hash s)))) ∨
              (¬ c.dollar s ∧ ((w = v ∧ c.polExempt k) ∨ c.leafOK k v w))
  | _      => (w = v ∧ c.polExempt k) ∨ c.leafOK k v w

mutual
  /-- ElemRelQ / ElemRelA unfolded over the whole tree (atoms RelQ / RelA replaced by their defining relations) -/
  def relV (c : Ctx) (k : String) : Val → Val → Prop
    | .map a, w => match w with
                   | .map b => relM c a b
                   | _ => False
    | .arr xs, w => match w with
                    | .arr ys => relL c k xs ys
                    | _ => False
    | .nil, w => leafRel c k .nil w
    | .str s, w => leafRel c k (.str s) w
    | .num n, w => leafRel c k (.num n) w
    | .bool b, w => leafRel c k (.bool b) w
  /-- QAcc at the end of the loop: entry i of the output is the image of entry i of the input -/
  def relM (c : Ctx) : Entries → Entries → Prop
    | .nil, b => b = .nil
    | .cons k v a, b => match b with
                        | .cons j w b' => keyOK c k j ∧ relV c k v w ∧ relM c a b'
                        | .nil => False
  /-- per-iteration clause + range completeness of the array walker: element i is the image of element i -/
  def relL (c : Ctx) (k : String) : Vals → Vals → Prop
    | .nil, ys => ys = .nil
    | .cons x xs, ys => match ys with
                        | .cons y ys' => relV c k x y ∧ relL c k xs ys'
                        | .nil => False
end

/-! ## L-shape -/

def sameKind : Val → Val → Prop
  | .nil, .nil => True
  | .str _, .str _ => True
  | .num _, .num _ => True
  | .bool _, .bool _ => True
  | _, _ => False

mutual
  def shapeV (c : Ctx) : Val → Val → Prop
    | .map a, w => match w with
                   | .map b => shapeM c a b
                   | _ => False
    | .arr xs, w => match w with
                    | .arr ys => shapeL c xs ys
                    | _ => False
    | .nil, w => sameKind .nil w
    | .str s, w => sameKind (.str s) w
    | .num n, w => sameKind (.num n) w
    | .bool b, w => sameKind (.bool b) w
  def shapeM (c : Ctx) : Entries → Entries → Prop
    | .nil, b => b = .nil
    | .cons k v a, b => match b with
                        | .cons j w b' => keyOK c k j ∧ shapeV c v w ∧ shapeM c a b'
                        | .nil => False
  def shapeL (c : Ctx) : Vals → Vals → Prop
    | .nil, ys => ys = .nil
    | .cons x xs, ys => match ys with
                        | .cons y ys' => shapeV c x y ∧ shapeL c xs ys'
                        | .nil => False
end

/-- the leaf rule keeps the JSON kind (prelude lemma `leafok-kind`, an SMT obligation of C03) -/
def LeafKind (c : Ctx) : Prop := ∀ k v w, isLeaf v → c.leafOK k v w → sameKind v w

theorem sameKind_refl : ∀ v, isLeaf v → sameKind v v
  | .nil, _ => trivial
  | .str _, _ => trivial
  | .num _, _ => trivial
  | .bool _, _ => trivial
  | .map _, h => h.elim
  | .arr _, h => h.elim

theorem leafRel_kind (c : Ctx) (hk : LeafKind c) (k : String) (v w : Val) (hv : isLeaf v) (h : leafRel c k v w) :
    sameKind v w := by
  cases v with
  | str s =>
    simp only [leafRel] at h
    rcases h with ⟨_, h | ⟨_, h⟩⟩ | ⟨_, ⟨h, _⟩ | h⟩
    · subst h; trivial
    · subst h; trivial
    · subst h; trivial
    · exact hk k _ _ hv h
  | nil =>
    simp only [leafRel] at h
    rcases h with ⟨h, _⟩ | h
    · subst h; trivial
    · exact hk k _ _ hv h
  | num n =>
    simp only [leafRel] at h
    rcases h with ⟨h, _⟩ | h
    · subst h; trivial
    · exact hk k _ _ hv h
  | bool b =>
    simp only [leafRel] at h
    rcases h with ⟨h, _⟩ | h
    · subst h; trivial
    · exact hk k _ _ hv h
  | map _ => exact hv.elim
  | arr _ => exact hv.elim

mutual
  theorem shape_of_relV (c : Ctx) (hk : LeafKind c) (k : String) : ∀ v w, relV c k v w → shapeV c v w
    | .map a, w, h => by
        cases w with
        | map b => simp only [relV] at h; simp only [shapeV]; exact shape_of_relM c hk a b h
        | _ => simp [relV] at h
    | .arr xs, w, h => by
        cases w with
        | arr ys => simp only [relV] at h; simp only [shapeV]; exact shape_of_relL c hk k xs ys h
        | _ => simp [relV] at h
    | .nil, w, h => by simp only [relV] at h; simp only [shapeV]; exact leafRel_kind c hk k _ w trivial h
    | .str s, w, h => by simp only [relV] at h; simp only [shapeV]; exact leafRel_kind c hk k _ w trivial h
    | .num n, w, h => by simp only [relV] at h; simp only [shapeV]; exact leafRel_kind c hk k _ w trivial h
    | .bool b, w, h => by simp only [relV] at h; simp only [shapeV]; exact leafRel_kind c hk k _ w trivial h
  theorem shape_of_relM (c : Ctx) (hk : LeafKind c) : ∀ a b, relM c a b → shapeM c a b
    | .nil, b, h => by simp only [relM] at h; simp only [shapeM]; exact h
    | .cons k v a, b, h => by
        cases b with
        | nil => simp [relM] at h
        | cons j w b' =>
          simp only [relM] at h; simp only [shapeM]
          exact ⟨h.1, shape_of_relV c hk k v w h.2.1, shape_of_relM c hk a b' h.2.2⟩
  theorem shape_of_relL (c : Ctx) (hk : LeafKind c) (k : String) : ∀ xs ys, relL c k xs ys → shapeL c xs ys
    | .nil, ys, h => by simp only [relL] at h; simp only [shapeL]; exact h
    | .cons x xs, ys, h => by
        cases ys with
        | nil => simp [relL] at h
        | cons y ys' =>
          simp only [relL] at h; simp only [shapeL]
          exact ⟨shape_of_relV c hk k x y h.1, shape_of_relL c hk k xs ys' h.2⟩
end

/-! ## L-clean -/

mutual
  /-- every string leaf of the value is admissible under the key it sits at (array elements: the key of the array) -/
  def cleanV (c : Ctx) (k : String) : Val → Prop
    | .str s => c.okString k s
    | .map b => cleanM c b
    | .arr ys => cleanL c k ys
    | _ => True
  def cleanM (c : Ctx) : Entries → Prop
    | .nil => True
    | .cons j w b => (∃ k, keyOK c k j ∧ cleanV c k w) ∧ cleanM c b
  def cleanL (c : Ctx) (k : String) : Vals → Prop
    | .nil => True
    | .cons y ys => cleanV c k y ∧ cleanL c k ys
end

/-- what the leaf contract and the policy give for ONE leaf (SMT obligations `string-kept-only-where-allowed`,
    `string-class-placeholder` of redactScalarValue; `$`-strings and policy-exempt keys are outside the claim of C01) -/
structure LeafClean (c : Ctx) : Prop where
  ofLeafOK : ∀ k v s, isLeaf v → c.leafOK k v (.str s) → c.okString k s
  ofDollar : ∀ k s, c.dollar s → c.okString k s
  ofHash   : ∀ k s, c.okString k (c.hash s)
  ofExempt : ∀ k s, c.polExempt k → c.okString k s

theorem sameKind_leaf : ∀ v w, isLeaf v → sameKind v w → isLeaf w
  | .nil, .nil, _, _ => trivial
  | .str _, .str _, _, _ => trivial
  | .num _, .num _, _, _ => trivial
  | .bool _, .bool _, _, _ => trivial
  | .nil, .str _, _, h => h.elim
  | .nil, .num _, _, h => h.elim
  | .nil, .bool _, _, h => h.elim
  | .nil, .map _, _, h => h.elim
  | .nil, .arr _, _, h => h.elim
  | .str _, .nil, _, h => h.elim
  | .str _, .num _, _, h => h.elim
  | .str _, .bool _, _, h => h.elim
  | .str _, .map _, _, h => h.elim
  | .str _, .arr _, _, h => h.elim
  | .num _, .nil, _, h => h.elim
  | .num _, .str _, _, h => h.elim
  | .num _, .bool _, _, h => h.elim
  | .num _, .map _, _, h => h.elim
  | .num _, .arr _, _, h => h.elim
  | .bool _, .nil, _, h => h.elim
  | .bool _, .str _, _, h => h.elim
  | .bool _, .num _, _, h => h.elim
  | .bool _, .map _, _, h => h.elim
  | .bool _, .arr _, _, h => h.elim
  | .map _, _, h, _ => h.elim
  | .arr _, _, h, _ => h.elim

theorem leafRel_clean (c : Ctx) (hk : LeafKind c) (hc : LeafClean c) (k : String) (v w : Val) (hv : isLeaf v)
    (h : leafRel c k v w) : cleanV c k w := by
  have hw : isLeaf w := sameKind_leaf v w hv (leafRel_kind c hk k v w hv h)
  cases w with
  | str t =>
    simp only [cleanV]
    cases v with
    | str s =>
      simp only [leafRel] at h
      rcases h with ⟨hd, h | ⟨_, h⟩⟩ | ⟨_, ⟨h, he⟩ | h⟩
      · cases h; exact hc.ofDollar k _ hd
      · cases h; exact hc.ofHash k _
      · exact hc.ofExempt k t he
      · exact hc.ofLeafOK k _ t hv h
    | nil =>
      simp only [leafRel] at h
      rcases h with ⟨_, he⟩ | h
      · exact hc.ofExempt k t he
      · exact hc.ofLeafOK k _ t hv h
    | num n =>
      simp only [leafRel] at h
      rcases h with ⟨_, he⟩ | h
      · exact hc.ofExempt k t he
      · exact hc.ofLeafOK k _ t hv h
    | bool b =>
      simp only [leafRel] at h
      rcases h with ⟨_, he⟩ | h
      · exact hc.ofExempt k t he
      · exact hc.ofLeafOK k _ t hv h
    | map _ => exact hv.elim
    | arr _ => exact hv.elim
  | nil => simp [cleanV]
  | num _ => simp [cleanV]
  | bool _ => simp [cleanV]
  | map _ => exact hw.elim
  | arr _ => exact hw.elim

mutual
  theorem clean_of_relV (c : Ctx) (hk : LeafKind c) (hc : LeafClean c) (k : String) : ∀ v w, relV c k v w → cleanV c k w
    | .map a, w, h => by
        cases w with
        | map b => simp only [relV] at h; simp only [cleanV]; exact clean_of_relM c hk hc a b h
        | _ => simp [relV] at h
    | .arr xs, w, h => by
        cases w with
        | arr ys => simp only [relV] at h; simp only [cleanV]; exact clean_of_relL c hk hc k xs ys h
        | _ => simp [relV] at h
    | .nil, w, h => by simp only [relV] at h; exact leafRel_clean c hk hc k .nil w (by simp [isLeaf]) h
    | .str s, w, h => by simp only [relV] at h; exact leafRel_clean c hk hc k (.str s) w (by simp [isLeaf]) h
    | .num n, w, h => by simp only [relV] at h; exact leafRel_clean c hk hc k (.num n) w (by simp [isLeaf]) h
    | .bool b, w, h => by simp only [relV] at h; exact leafRel_clean c hk hc k (.bool b) w (by simp [isLeaf]) h
  theorem clean_of_relM (c : Ctx) (hk : LeafKind c) (hc : LeafClean c) : ∀ a b, relM c a b → cleanM c b
    | .nil, b, h => by simp only [relM] at h; subst h; simp [cleanM]
    | .cons k v a, b, h => by
        cases b with
        | nil => simp [relM] at h
        | cons j w b' =>
          simp only [relM] at h; simp only [cleanM]
          exact ⟨⟨k, h.1, clean_of_relV c hk hc k v w h.2.1⟩, clean_of_relM c hk hc a b' h.2.2⟩
  theorem clean_of_relL (c : Ctx) (hk : LeafKind c) (hc : LeafClean c) (k : String) : ∀ xs ys, relL c k xs ys → cleanL c k ys
    | .nil, ys, h => by simp only [relL] at h; subst h; simp [cleanL]
    | .cons x xs, ys, h => by
        cases ys with
        | nil => simp [relL] at h
        | cons y ys' =>
          simp only [relL] at h; simp only [cleanL]
          exact ⟨clean_of_relV c hk hc k x y h.1, clean_of_relL c hk hc k xs ys' h.2⟩
end

/-! ## The exact leaf function: L-ni (C02) and L-fix (C19)

  In placeholder mode without field-name renaming the postcondition `exact-leaf-function` of redactScalarValue pins the
  leaf result to  ite(kept, v, leafPH(c, pk, gpk, v))  where `kept` depends on the key path, the flags and the tables only;
  together with the relations (one output entry per input entry, same key, `$`-strings kept) the output tree IS `redV`. -/

structure Fn where
  dollar : String → Bool          -- the string starts with '$' (a field-path reference: kept, outside the claims)
  kept   : String → Bool          -- keep condition of the position (policy-exempt key, selective mode without a matching name)
  leafF  : String → Val → Val     -- leafPH(c, k, ·)

mutual
  def redV (f : Fn) (k : String) : Val → Val
    | .map a => .map (redM f a)
    | .arr xs => .arr (redL f k xs)
    | .str s => if f.dollar s then .str s else if f.kept k then .str s else f.leafF k (.str s)
    | .nil => if f.kept k then .nil else f.leafF k .nil
    | .num n => if f.kept k then .num n else f.leafF k (.num n)
    | .bool b => if f.kept k then .bool b else f.leafF k (.bool b)
  def redM (f : Fn) : Entries → Entries
    | .nil => .nil
    | .cons k v a => .cons k (redV f k v) (redM f a)
  def redL (f : Fn) (k : String) : Vals → Vals
    | .nil => .nil
    | .cons x xs => .cons (redV f k x) (redL f k xs)
end

/-- two leaves at a position are interchangeable for C02: equal if the position keeps its value or the string is a
    `$`-reference (non-sensitive part of the input), otherwise of the same lexical class -/
def simLeaf (f : Fn) (cls : String → Val → Val → Prop) (k : String) (v v' : Val) : Prop :=
  v = v' ∨ (f.kept k = false ∧ (∀ s, v = .str s → f.dollar s = false) ∧ (∀ s, v' = .str s → f.dollar s = false) ∧
            isLeaf v ∧ isLeaf v' ∧ cls k v v')

mutual
  def simV (f : Fn) (cls : String → Val → Val → Prop) (k : String) : Val → Val → Prop
    | .map a, w => match w with
                   | .map b => simM f cls a b
                   | _ => False
    | .arr xs, w => match w with
                    | .arr ys => simL f cls k xs ys
                    | _ => False
    | .nil, w => simLeaf f cls k .nil w
    | .str s, w => simLeaf f cls k (.str s) w
    | .num n, w => simLeaf f cls k (.num n) w
    | .bool b, w => simLeaf f cls k (.bool b) w
  def simM (f : Fn) (cls : String → Val → Val → Prop) : Entries → Entries → Prop
    | .nil, b => b = .nil
    | .cons k v a, b => match b with
                        | .cons j w b' => j = k ∧ simV f cls k v w ∧ simM f cls a b'
                        | .nil => False
  def simL (f : Fn) (cls : String → Val → Val → Prop) (k : String) : Vals → Vals → Prop
    | .nil, ys => ys = .nil
    | .cons x xs, ys => match ys with
                        | .cons y ys' => simV f cls k x y ∧ simL f cls k xs ys'
                        | .nil => False
end

/-- SMT lemmas of C02 (`same-class-same-placeholder-*`): the leaf function looks at a value only through its class -/
def LeafClass (f : Fn) (cls : String → Val → Val → Prop) : Prop := ∀ k v v', cls k v v' → f.leafF k v = f.leafF k v'

theorem red_leaf_sim (f : Fn) (cls : String → Val → Val → Prop) (hcl : LeafClass f cls) (k : String) (v v' : Val)
    (hv : isLeaf v) (h : simLeaf f cls k v v') : redV f k v = redV f k v' := by
  rcases h with h | ⟨hk, hd, hd', _, hv', hc⟩
  · subst h; rfl
  · have e := hcl k v v' hc
    cases v with
    | map _ => exact hv.elim
    | arr _ => exact hv.elim
    | str s =>
      have ds := hd s rfl
      cases v' with
      | map _ => exact hv'.elim
      | arr _ => exact hv'.elim
      | str t => have dt := hd' t rfl; simp [redV, ds, dt, hk, e]
      | nil => simp [redV, ds, hk, e]
      | num _ => simp [redV, ds, hk, e]
      | bool _ => simp [redV, ds, hk, e]
    | nil =>
      cases v' with
      | map _ => exact hv'.elim
      | arr _ => exact hv'.elim
      | str t => have dt := hd' t rfl; simp [redV, dt, hk, e]
      | nil => simp [redV, hk]
      | num _ => simp [redV, hk, e]
      | bool _ => simp [redV, hk, e]
    | num n =>
      cases v' with
      | map _ => exact hv'.elim
      | arr _ => exact hv'.elim
      | str t => have dt := hd' t rfl; simp [redV, dt, hk, e]
      | nil => simp [redV, hk, e]
      | num _ => simp [redV, hk, e]
      | bool _ => simp [redV, hk, e]
    | bool b =>
      cases v' with
      | map _ => exact hv'.elim
      | arr _ => exact hv'.elim
      | str t => have dt := hd' t rfl; simp [redV, dt, hk, e]
      | nil => simp [redV, hk, e]
      | num _ => simp [redV, hk, e]
      | bool _ => simp [redV, hk, e]

mutual
  /-- L-ni: inputs that differ only inside sensitive leaves of one class have the same redaction -/
  theorem ni_V (f : Fn) (cls : String → Val → Val → Prop) (hcl : LeafClass f cls) (k : String) :
      ∀ v v', simV f cls k v v' → redV f k v = redV f k v'
    | .map a, w, h => by
        cases w with
        | map b => simp only [simV] at h; simp only [redV]; rw [ni_M f cls hcl a b h]
        | _ => simp [simV] at h
    | .arr xs, w, h => by
        cases w with
        | arr ys => simp only [simV] at h; simp only [redV]; rw [ni_L f cls hcl k xs ys h]
        | _ => simp [simV] at h
    | .nil, w, h => by simp only [simV] at h; exact red_leaf_sim f cls hcl k .nil w (by simp [isLeaf]) h
    | .str s, w, h => by simp only [simV] at h; exact red_leaf_sim f cls hcl k (.str s) w (by simp [isLeaf]) h
    | .num n, w, h => by simp only [simV] at h; exact red_leaf_sim f cls hcl k (.num n) w (by simp [isLeaf]) h
    | .bool b, w, h => by simp only [simV] at h; exact red_leaf_sim f cls hcl k (.bool b) w (by simp [isLeaf]) h
  theorem ni_M (f : Fn) (cls : String → Val → Val → Prop) (hcl : LeafClass f cls) :
      ∀ a b, simM f cls a b → redM f a = redM f b
    | .nil, b, h => by simp only [simM] at h; subst h; rfl
    | .cons k v a, b, h => by
        cases b with
        | nil => simp [simM] at h
        | cons j w b' =>
          simp only [simM] at h
          obtain ⟨hj, hv, hm⟩ := h
          subst hj
          simp only [redM]; rw [ni_V f cls hcl j v w hv, ni_M f cls hcl a b' hm]
  theorem ni_L (f : Fn) (cls : String → Val → Val → Prop) (hcl : LeafClass f cls) (k : String) :
      ∀ xs ys, simL f cls k xs ys → redL f k xs = redL f k ys
    | .nil, ys, h => by simp only [simL] at h; subst h; rfl
    | .cons x xs, ys, h => by
        cases ys with
        | nil => simp [simL] at h
        | cons y ys' =>
          simp only [simL] at h
          simp only [redL]; rw [ni_V f cls hcl k x y h.1, ni_L f cls hcl k xs ys' h.2]
end

/-- SMT lemma of C19 (`leaf-idempotence`) and the kind lemma: the leaf function returns a leaf, and applying it to its own
    result changes nothing -/
structure LeafIdem (f : Fn) : Prop where
  leaf : ∀ k v, isLeaf v → isLeaf (f.leafF k v)
  idem : ∀ k v, isLeaf v → f.leafF k (f.leafF k v) = f.leafF k v

theorem red_leaf_fix (f : Fn) (_hi : LeafIdem f) (k : String) (w : Val) (hw : isLeaf w) (hk : f.kept k = false)
    (hidem : f.leafF k w = w) : redV f k w = w := by
  cases w with
  | map _ => exact hw.elim
  | arr _ => exact hw.elim
  | str t =>
    simp only [redV]
    cases hd : f.dollar t with
    | true => simp
    | false => simp [hk, hidem]
  | nil => simp [redV, hk, hidem]
  | num _ => simp [redV, hk, hidem]
  | bool _ => simp [redV, hk, hidem]

theorem red_leaf_idem (f : Fn) (hi : LeafIdem f) (k : String) (v : Val) (hv : isLeaf v) :
    redV f k (redV f k v) = redV f k v := by
  cases hk : f.kept k with
  | true =>
    cases v with
    | map _ => exact hv.elim
    | arr _ => exact hv.elim
    | str s => cases hd : f.dollar s <;> simp [redV, hk, hd]
    | nil => simp [redV, hk]
    | num _ => simp [redV, hk]
    | bool _ => simp [redV, hk]
  | false =>
    have fixes : ∀ u, isLeaf u → redV f k (f.leafF k u) = f.leafF k u := fun u hu =>
      red_leaf_fix f hi k (f.leafF k u) (hi.leaf k u hu) hk (hi.idem k u hu)
    cases v with
    | map _ => exact hv.elim
    | arr _ => exact hv.elim
    | str s =>
      cases hd : f.dollar s with
      | true => simp [redV, hd]
      | false => simp only [redV, hd, hk]; simpa using fixes (.str s) hv
    | nil => simp only [redV, hk]; simpa using fixes .nil hv
    | num n => simp only [redV, hk]; simpa using fixes (.num n) hv
    | bool b => simp only [redV, hk]; simpa using fixes (.bool b) hv

mutual
  /-- L-fix: the redacted tree is a fixed point of redaction -/
  theorem fix_V (f : Fn) (hi : LeafIdem f) (k : String) : ∀ v, redV f k (redV f k v) = redV f k v
    | .map a => by simp only [redV]; rw [fix_M f hi a]
    | .arr xs => by simp only [redV]; rw [fix_L f hi k xs]
    | .nil => red_leaf_idem f hi k .nil (by simp [isLeaf])
    | .str s => red_leaf_idem f hi k (.str s) (by simp [isLeaf])
    | .num n => red_leaf_idem f hi k (.num n) (by simp [isLeaf])
    | .bool b => red_leaf_idem f hi k (.bool b) (by simp [isLeaf])
  theorem fix_M (f : Fn) (hi : LeafIdem f) : ∀ a, redM f (redM f a) = redM f a
    | .nil => rfl
    | .cons k v a => by simp only [redM]; rw [fix_V f hi k v, fix_M f hi a]
  theorem fix_L (f : Fn) (hi : LeafIdem f) (k : String) : ∀ xs, redL f k (redL f k xs) = redL f k xs
    | .nil => rfl
    | .cons x xs => by simp only [redL]; rw [fix_V f hi k x, fix_L f hi k xs]
end

end Bridge

-- the checker reads these lines: no theorem may depend on `sorryAx` or on an axiom declared in this file
#print axioms Bridge.shape_of_relV
#print axioms Bridge.clean_of_relV
#print axioms Bridge.ni_V
#print axioms Bridge.fix_V
