/-
  Schema.lean — mechanised justification of the axiom schemas of /verif/spec/prelude.vc that are NOT definitional
  unfoldings (DESIGN.md, assumption SCHEMA). Core Lean 4 only (no Mathlib).

  Method. The SMT prelude introduces accumulator predicates (QAcc, PAcc, NAcc, ChangedOnlyZ, ...) by "introduction"
  axioms (zero / step / refl / set) and uses "elimination" axioms about them (len, fresh-key, idx, key, val, ...).
  Here every such predicate is DEFINED as the inductive closure of its introduction rules over an abstract ordered-map
  signature that satisfies the base axioms om-* of the prelude (class `OM`), and every elimination axiom is PROVED.
  Hence the accumulator axioms are a conservative extension of the om-* axioms: whatever the solvers derive from them
  holds in every model of om-*. The om-* axioms themselves are shown consistent by a list model at the end (`ListOM`).
  Array-indexed accumulators (matchAny, anyPrefix, MapStrip) are defined by recursion on the length and their
  step / monotonicity / store / elimination axioms are proved.
-/

set_option linter.unusedVariables false

namespace Schema

/-- the base signature and axioms of ordered maps, exactly the axioms om-* of prelude.vc -/
class OM (M : Type) (V : outParam Type) where
  empty : M
  len : M → Int
  key : M → Int → String
  val : M → Int → V
  idx : M → String → Int
  set : M → String → V → M
  len_nonneg : ∀ m, 0 ≤ len m
  empty_len : len empty = 0
  empty_idx : ∀ k, idx empty k = -1
  idx_range : ∀ m k, -1 ≤ idx m k ∧ idx m k < len m ∧ (0 ≤ idx m k → key m (idx m k) = k)
  key_idx : ∀ m i, 0 ≤ i → i < len m → idx m (key m i) = i
  set_len : ∀ m k v, len (set m k v) = (if 0 ≤ idx m k then len m else len m + 1) ∧
                     idx (set m k v) k = (if 0 ≤ idx m k then idx m k else len m)
  set_key : ∀ m k v i, key (set m k v) i = (if idx m k < 0 ∧ i = len m then k else key m i)
  set_val : ∀ m k v i, val (set m k v) i = (if i = (if 0 ≤ idx m k then idx m k else len m) then v else val m i)
  set_idx : ∀ m k v j, j ≠ k → idx (set m k v) j = idx m j

open OM

variable {M V : Type} [OM M V]

/-! ### QAcc / PAcc / NAcc: one output entry per input entry -/

/-- the common shape of qacc-zero / qacc-step, pacc-zero / pacc-step, nacc-zero / nacc-step.
    `fn`: field names may be renamed (then a key may be overwritten); `keyOK k j`: admissible output key for input key k;
    `rel k v w`: admissible output value. -/
inductive AccP (fn : Bool) (keyOK : String → String → Prop) (rel : String → V → V → Prop) (a : M) : Int → M → Prop
  | zero : AccP fn keyOK rel a 0 (empty : M)
  | step {i : Int} {b : M} {j : String} {w : V} :
      AccP fn keyOK rel a i b → 0 ≤ i → i < len a → (fn = true ∨ idx b j < 0) →
      keyOK (key a i) j → rel (key a i) (val a i) w →
      AccP fn keyOK rel a (i + 1) (set b j w)

/-- invariant carried by the induction: without renaming, b has i entries and its keys are the first i keys of a -/
theorem acc_inv {keyOK : String → String → Prop} {rel : String → V → V → Prop} {a : M}
    (hk : ∀ k j, keyOK k j → j = k) {i : Int} {b : M} (h : AccP false keyOK rel a i b) :
    0 ≤ i ∧ len b = i ∧ ∀ s, 0 ≤ idx b s → ∃ p, 0 ≤ p ∧ p < i ∧ key a p = s := by
  induction h with
  | zero =>
    refine ⟨by omega, empty_len, ?_⟩
    intro s hs
    rw [empty_idx] at hs
    omega
  | step hacc hi0 hilt hfresh hkey hrel ih =>
    rename_i i b j w
    obtain ⟨_, hlen, hkeys⟩ := ih
    have hj : idx b j < 0 := by
      cases hfresh with
      | inl h => cases h
      | inr h => exact h
    have hjk : j = key a i := hk _ _ hkey
    refine ⟨by omega, ?_, ?_⟩
    · have := (set_len b j w).1
      rw [this]
      have : ¬ (0 ≤ idx b j) := by omega
      simp [this, hlen]
    · intro s hs
      by_cases hsj : s = j
      · exact ⟨i, hi0, by omega, by rw [hsj, hjk]⟩
      · rw [set_idx b j w s hsj] at hs
        obtain ⟨p, hp0, hpi, hpk⟩ := hkeys s hs
        exact ⟨p, hp0, by omega, hpk⟩

/-- qacc-len / pacc-len / nacc-len -/
theorem acc_len {keyOK : String → String → Prop} {rel : String → V → V → Prop} {a : M}
    (hk : ∀ k j, keyOK k j → j = k) {i : Int} {b : M} (h : AccP false keyOK rel a i b) : len b = i :=
  (acc_inv hk h).2.1

/-- qacc-fresh-key / pacc-fresh-key / nacc-fresh-key: the next input key is not yet a key of the output -/
theorem acc_fresh_key {keyOK : String → String → Prop} {rel : String → V → V → Prop} {a : M}
    (hk : ∀ k j, keyOK k j → j = k) {i : Int} {b : M} (h : AccP false keyOK rel a i b)
    (hi0 : 0 ≤ i) (hilt : i < len a) : idx b (key a i) < 0 := by
  obtain ⟨_, _, hkeys⟩ := acc_inv hk h
  by_cases hneg : idx b (key a i) < 0
  · exact hneg
  · exfalso
    obtain ⟨p, hp0, hpi, hpk⟩ := hkeys (key a i) (by omega)
    have h1 := key_idx a p hp0 (by omega)
    have h2 := key_idx a i hi0 hilt
    rw [hpk] at h1
    omega

/-! ### ChangedOnly*: same keys in the same order, values differ only at allowed keys -/

/-- common shape of coz-refl/coz-set, con-refl/con-set, coa-refl/coa-set (`allowed k`: the key may change its value;
    for ChangedOnlyAt a Set that stores the value already there is also admitted) -/
inductive Chg (allowed : String → Prop) (a : M) : M → Prop
  | refl : Chg allowed a a
  | set {b : M} {k : String} {v : V} :
      Chg allowed a b → 0 ≤ idx b k → (allowed k ∨ v = val b (idx b k)) → Chg allowed a (set b k v)

theorem chg_inv {allowed : String → Prop} {a b : M} (h : Chg allowed a b) :
    len b = len a ∧ (∀ k, idx b k = idx a k) ∧ (∀ i, key b i = key a i) ∧
    (∀ i, 0 ≤ i → i < len a → ¬ allowed (key a i) → val b i = val a i) := by
  induction h with
  | refl => exact ⟨rfl, fun _ => rfl, fun _ => rfl, fun _ _ _ _ => rfl⟩
  | set hc hidx hallow ih =>
    rename_i b k v
    obtain ⟨hl, hi, hkk, hv⟩ := ih
    have hpos : 0 ≤ idx b k := hidx
    refine ⟨?_, ?_, ?_, ?_⟩
    · rw [(set_len b k v).1]; simp [hpos, hl]
    · intro s
      by_cases hs : s = k
      · subst hs
        rw [(set_len b s v).2, if_pos hpos]; exact hi s
      · rw [set_idx b k v s hs, hi]
    · intro i
      rw [set_key b k v i]
      have : ¬ (idx b k < 0 ∧ i = len b) := by omega
      simp [this, hkk]
    · intro i hi0 hil hna
      rw [set_val b k v i]
      simp only [hpos, if_true]
      by_cases hik : i = idx b k
      · -- the written position: either the key is allowed (contradiction) or the same value is stored
        have hkey : key b i = k := by
          have := (idx_range b k).2.2 hpos
          rw [hik]; exact this
        rw [hkk] at hkey
        cases hallow with
        | inl ha => rw [hkey] at hna; exact absurd ha hna
        | inr hsame => simp [hik]; rw [hsame]; rw [← hik]; exact hv i hi0 hil hna
      · simp [hik]; exact hv i hi0 hil hna

/-- coz-len / con-len / coa-len -/
theorem chg_len {allowed : String → Prop} {a b : M} (h : Chg allowed a b) : len b = len a := (chg_inv h).1
/-- coz-idx / con-idx / coa-idx -/
theorem chg_idx {allowed : String → Prop} {a b : M} (h : Chg allowed a b) (k : String) : idx b k = idx a k := (chg_inv h).2.1 k
/-- coz-key -/
theorem chg_key {allowed : String → Prop} {a b : M} (h : Chg allowed a b) (i : Int) : key b i = key a i := (chg_inv h).2.2.1 i
/-- coz-val / coa-val -/
theorem chg_val {allowed : String → Prop} {a b : M} (h : Chg allowed a b) (i : Int) (h0 : 0 ≤ i) (h1 : i < len a)
    (hna : ¬ allowed (key a i)) : val b i = val a i := (chg_inv h).2.2.2 i h0 h1 hna


/-! ### frame lemma behind zonemap-frame / zonearr-frame / slotok-frame -/

/-- a Set on another existing key does not change the value stored at the position of key k -/
theorem val_set_other {b : M} {j k : String} {v : V} (hjk : j ≠ k) (hj : 0 ≤ idx b j) (hk : 0 ≤ idx b k) :
    val (set b j v) (idx b k) = val b (idx b k) ∧ idx (set b j v) k = idx b k := by
  have hne : idx b k ≠ idx b j := by
    intro h
    have h1 := (idx_range b j).2.2 hj
    have h2 := (idx_range b k).2.2 hk
    rw [h] at h2
    exact hjk (by rw [← h1, h2])
  refine ⟨?_, set_idx b j v k (Ne.symm hjk)⟩
  rw [set_val b j v (idx b k)]
  simp [hj, hne]

/-- zonemap-frame / zonearr-frame / slotok-frame: a fact about the value under key k (at the position it has in A) survives
    a Set on another existing key of B (P stands for the body of zonemap-def / zonearr-def / slotok-def) -/
theorem zone_frame {a b : M} {j k : String} {v : V} (P : V → Prop)
    (h : idx a k < 0 ∨ P (val b (idx a k))) (hjk : j ≠ k) (hj : 0 ≤ idx b j) (hidx : idx b k = idx a k) :
    idx a k < 0 ∨ P (val (set b j v) (idx a k)) := by
  cases h with
  | inl h => exact Or.inl h
  | inr h =>
    by_cases hneg : idx a k < 0
    · exact Or.inl hneg
    · right
      have hk : 0 ≤ idx b k := by omega
      have := (val_set_other (v := v) hjk hj hk).1
      rw [hidx] at this
      rw [this]; exact h

/-! ### array-indexed accumulators (arrays are functions on Int, as in the SMT encoding) -/

def store {α : Type} (a : Int → α) (i : Int) (x : α) : Int → α := fun j => if j = i then x else a j

/-- copyInto(d, dp, s, sp, n): d with d[dp .. dp+n) overwritten by s[sp .. sp+n) (model of Go's copy / append) -/
def copyInto {α : Type} (d : Int → α) (dp : Int) (s : Int → α) (sp : Int) (n : Int) : Int → α :=
  fun j => if dp ≤ j ∧ j < dp + n then s (sp + (j - dp)) else d j

/-- matchAny / anyPrefix / anyRefMatch: some element of a[o .. o+n) satisfies p -/
def anyP {α : Type} (p : α → Prop) (a : Int → α) (o n : Int) : Prop := ∃ j, 0 ≤ j ∧ j < n ∧ p (a (o + j))

/-- matchany-zero / anyprefix-zero / anyrefmatch-zero -/
theorem anyP_zero {α : Type} (p : α → Prop) (a : Int → α) (o : Int) : ¬ anyP p a o 0 := by
  intro ⟨j, h0, h1, _⟩; omega

/-- matchany-step / anyprefix-step / anyrefmatch-step -/
theorem anyP_step {α : Type} (p : α → Prop) (a : Int → α) (o n m : Int) (hm : m = n + 1) (hn : 0 ≤ n) :
    anyP p a o m ↔ (anyP p a o n ∨ p (a (o + n))) := by
  subst hm
  constructor
  · intro ⟨j, h0, h1, hp⟩
    by_cases hj : j = n
    · right; rw [← hj]; exact hp
    · left; exact ⟨j, h0, by omega, hp⟩
  · intro h
    cases h with
    | inl h => obtain ⟨j, h0, h1, hp⟩ := h; exact ⟨j, h0, by omega, hp⟩
    | inr h => exact ⟨n, hn, by omega, h⟩

/-- matchany-mono / anyprefix-mono / anyrefmatch-mono -/
theorem anyP_mono {α : Type} (p : α → Prop) (a : Int → α) (o n m : Int) (h : anyP p a o n) (hnm : n ≤ m) : anyP p a o m := by
  obtain ⟨j, h0, h1, hp⟩ := h; exact ⟨j, h0, by omega, hp⟩

/-- matchany-store-beyond -/
theorem anyP_store_beyond {α : Type} (p : α → Prop) (a : Int → α) (o n i : Int) (x : α) (hi : o + n ≤ i) :
    anyP p (store a i x) o n ↔ anyP p a o n := by
  constructor <;> intro ⟨j, h0, h1, hp⟩ <;> refine ⟨j, h0, h1, ?_⟩
  · have : o + j ≠ i := by omega
    simpa [store, this] using hp
  · have : o + j ≠ i := by omega
    simpa [store, this] using hp

/-- matchany-store-last -/
theorem anyP_store_last {α : Type} (p : α → Prop) (a : Int → α) (o m i : Int) (x : α) (hi : i = o + m - 1) (hm : 1 ≤ m) :
    anyP p (store a i x) o m ↔ (anyP p a o (m - 1) ∨ p x) := by
  constructor
  · intro ⟨j, h0, h1, hp⟩
    by_cases hj : o + j = i
    · right; simpa [store, hj] using hp
    · left; refine ⟨j, h0, by omega, ?_⟩; simpa [store, hj] using hp
  · intro h
    cases h with
    | inl h =>
      obtain ⟨j, h0, h1, hp⟩ := h
      refine ⟨j, h0, by omega, ?_⟩
      have : o + j ≠ i := by omega
      simpa [store, this] using hp
    | inr h =>
      refine ⟨m - 1, by omega, by omega, ?_⟩
      have : o + (m - 1) = i := by omega
      simpa [store, this] using h

/-- matchany-copy: the copied prefix (an append that reallocates) has the same matches -/
theorem anyP_copy {α : Type} (p : α → Prop) (d s : Int → α) (sp n m : Int) (hm : m = n) (hn : 0 ≤ n) :
    anyP p (copyInto d 0 s sp n) 0 m ↔ anyP p s sp n := by
  subst hm
  constructor <;> intro ⟨j, h0, h1, hp⟩ <;> refine ⟨j, h0, h1, ?_⟩
  · have hc : (0 : Int) ≤ j ∧ j < m := ⟨h0, h1⟩
    simpa [copyInto, hc] using hp
  · have hc : (0 : Int) ≤ j ∧ j < m := ⟨h0, h1⟩
    simpa [copyInto, hc] using hp

/-- MapStrip / MapP: b[bo+j] = f (a[ao+j]) for 0 ≤ j < n  (f = stripPort, resp. pseudo r) -/
def mapped {α β : Type} (f : α → β) (a : Int → α) (ao : Int) (b : Int → β) (bo n : Int) : Prop :=
  ∀ j, 0 ≤ j → j < n → b (bo + j) = f (a (ao + j))

/-- mapstrip-zero / mapp-zero -/
theorem mapped_zero {α β : Type} (f : α → β) (a : Int → α) (ao : Int) (b : Int → β) (bo : Int) : mapped f a ao b bo 0 := by
  intro j h0 h1; omega

/-- mapstrip-step / mapp-step -/
theorem mapped_step {α β : Type} (f : α → β) (a : Int → α) (ao : Int) (b : Int → β) (bo n i : Int) (x : β) (m : Int)
    (h : mapped f a ao b bo n) (hn : 0 ≤ n) (hm : m = n + 1) (hi : i = bo + n) (hx : x = f (a (ao + n))) :
    mapped f a ao (store b i x) bo m := by
  intro j h0 h1
  by_cases hj : j = n
  · subst hj; simp [store, hi, hx]
  · have : bo + j ≠ i := by omega
    simp [store, this]; exact h j h0 (by omega)

/-- mapstrip-elim -/
theorem mapped_elim {α β : Type} (f : α → β) (a : Int → α) (ao : Int) (b : Int → β) (bo n k : Int)
    (h : mapped f a ao b bo n) (h0 : bo ≤ k) (h1 : k < bo + n) : b k = f (a (ao + k - bo)) := by
  have := h (k - bo) (by omega) (by omega)
  have e1 : bo + (k - bo) = k := by omega
  have e2 : ao + (k - bo) = ao + k - bo := by omega
  rw [e1, e2] at this; exact this

/-- join of the first n elements, as strings.Join computes it -/
def joinN (a : Int → String) (sep : String) : Nat → String
  | 0 => ""
  | 1 => a 0
  | (n + 2) => joinN a sep (n + 1) ++ sep ++ a (n + 1)

theorem joinN_ext (a b : Int → String) (sep : String) (n : Nat) (h : ∀ j : Int, 0 ≤ j → j < n → a j = b j) :
    joinN a sep n = joinN b sep n := by
  induction n using Nat.strongRecOn with
  | _ n ih =>
    match n with
    | 0 => rfl
    | 1 => simp [joinN]; exact h 0 (by omega) (by omega)
    | (k + 2) =>
      simp only [joinN]
      rw [ih (k + 1) (by omega) (fun j h0 h1 => h j h0 (by omega))]
      rw [h (k + 1) (by omega) (by omega)]

/-- join-mapped: joining a mapped prefix only looks at the first n elements -/
theorem join_mapped {α : Type} (f : α → String) (a : Int → α) (ao : Int) (b : Int → String) (bo : Int) (n : Nat) (sep : String)
    (h : mapped f a ao b bo n) :
    joinN (fun j => b (bo + j)) sep n = joinN (fun j => f (a (ao + j))) sep n :=
  joinN_ext _ _ sep n (fun j h0 h1 => h j h0 h1)

/-! ### sets of strings (SSet) and the element set of an array segment -/

abbrev SSet := String → Prop
def sEmpty : SSet := fun _ => False
def sAdd (t : SSet) (x : String) : SSet := fun y => x = y ∨ t y
def sDel (t : SSet) (x : String) : SSet := fun y => t y ∧ y ≠ x
def sUnion (t e : SSet) : SSet := fun y => t y ∨ e y
def sMinus (t e : SSet) : SSet := fun y => t y ∧ ¬ e y
def sSubset (t e : SSet) : Prop := ∀ y, t y → e y
def elemsS (a : Int → String) (o n : Int) : SSet := fun s => ∃ j, 0 ≤ j ∧ j < n ∧ a (o + j) = s

theorem set_ext {t e : SSet} (h : ∀ y, t y ↔ e y) : t = e := funext fun y => propext (h y)

theorem set_sub_refl (s : SSet) : sSubset s s := fun _ h => h
theorem set_sub_empty (s : SSet) (h : sSubset s sEmpty) : s = sEmpty := set_ext fun y => ⟨h y, False.elim⟩
theorem set_minus_union (t e : SSet) : sSubset (sMinus (sUnion t e) e) t := by
  intro y ⟨h1, h2⟩; cases h1 with
  | inl h => exact h
  | inr h => exact absurd h h2
theorem set_empty_union (e : SSet) : sUnion sEmpty e = e := set_ext fun y => ⟨fun h => h.elim False.elim id, Or.inr⟩
theorem set_minus_self (e : SSet) : sMinus e e = sEmpty := set_ext fun y => ⟨fun ⟨h1, h2⟩ => h2 h1, False.elim⟩
theorem set_union_empty (t : SSet) : sUnion t sEmpty = t := set_ext fun y => ⟨fun h => h.elim id False.elim, Or.inl⟩
theorem set_union_add (t e : SSet) (x : String) : sUnion t (sAdd e x) = sAdd (sUnion t e) x :=
  set_ext fun y => by simp only [sUnion, sAdd]; constructor <;> intro h <;> rcases h with h | h | h <;> simp [h]
theorem set_minus_empty (t : SSet) : sMinus t sEmpty = t := set_ext fun y => ⟨fun h => h.1, fun h => ⟨h, id⟩⟩
theorem set_minus_add (t e : SSet) (x : String) : sMinus t (sAdd e x) = sDel (sMinus t e) x :=
  set_ext fun y => by
    simp only [sMinus, sAdd, sDel]
    constructor
    · intro ⟨h1, h2⟩; exact ⟨⟨h1, fun he => h2 (Or.inr he)⟩, fun hy => h2 (Or.inl hy.symm)⟩
    · intro ⟨⟨h1, h2⟩, h3⟩; exact ⟨h1, fun h => h.elim (fun hx => h3 hx.symm) h2⟩
theorem set_del_add (t : SSet) (x : String) (h : ¬ t x) : sDel (sAdd t x) x = t :=
  set_ext fun y => by
    simp only [sDel, sAdd]
    constructor
    · intro ⟨h1, h2⟩; exact h1.elim (fun hx => absurd hx.symm h2) id
    · intro hy; exact ⟨Or.inr hy, fun hyx => h (hyx ▸ hy)⟩
theorem set_del_notmem (t : SSet) (x : String) : ¬ sDel t x x := fun h => h.2 rfl
theorem set_mem_add (t : SSet) (x y : String) : sAdd t x y ↔ (x = y ∨ t y) := Iff.rfl
theorem set_mem_empty (x : String) : ¬ sEmpty x := id

/-- elems-zero -/
theorem elems_zero (a : Int → String) (o : Int) : elemsS a o 0 = sEmpty :=
  set_ext fun s => ⟨fun ⟨j, h0, h1, _⟩ => by omega, False.elim⟩
/-- elems-step -/
theorem elems_step (a : Int → String) (o n m : Int) (hm : m = n + 1) (hn : 0 ≤ n) : elemsS a o m = sAdd (elemsS a o n) (a (o + n)) := by
  subst hm
  apply set_ext; intro s
  constructor
  · intro ⟨j, h0, h1, hs⟩
    by_cases hj : j = n
    · left; rw [← hj]; exact hs
    · right; exact ⟨j, h0, by omega, hs⟩
  · intro h
    cases h with
    | inl h => exact ⟨n, hn, by omega, h⟩
    | inr h => obtain ⟨j, h0, h1, hs⟩ := h; exact ⟨j, h0, by omega, hs⟩
/-- elems-store-outside -/
theorem elems_store_outside (a : Int → String) (i : Int) (x : String) (o m : Int) (h : i < o ∨ o + m ≤ i) :
    elemsS (store a i x) o m = elemsS a o m := by
  apply set_ext; intro s
  constructor <;> intro ⟨j, h0, h1, hs⟩ <;> refine ⟨j, h0, h1, ?_⟩
  · have : o + j ≠ i := by omega
    simpa [store, this] using hs
  · have : o + j ≠ i := by omega
    simpa [store, this] using hs
/-- elems-store-end (and elems-store-last, its instance n = m - 1) -/
theorem elems_store_end (a : Int → String) (i : Int) (x : String) (o n m : Int) (hm : m = n + 1) (hn : 0 ≤ n) (hi : i = o + n) :
    elemsS (store a i x) o m = sAdd (elemsS a o n) x := by
  rw [elems_step (store a i x) o n m hm hn]
  have h1 : elemsS (store a i x) o n = elemsS a o n := elems_store_outside a i x o n (Or.inr (by omega))
  have h2 : store a i x (o + n) = x := by simp [store, hi]
  rw [h1, h2]
/-- elems-copy -/
theorem elems_copy (d : Int → String) (dp : Int) (s : Int → String) (sp n o m : Int) (ho : dp = o) (hm : m = n) :
    elemsS (copyInto d dp s sp n) o m = elemsS s sp n := by
  subst ho; subst hm
  apply set_ext; intro t
  constructor <;> intro ⟨j, h0, h1, hs⟩ <;> refine ⟨j, h0, h1, ?_⟩
  · have hc : dp ≤ dp + j ∧ dp + j < dp + m := by omega
    have : sp + (dp + j - dp) = sp + j := by omega
    simpa [copyInto, hc, this] using hs
  · have hc : dp ≤ dp + j ∧ dp + j < dp + m := by omega
    have : sp + (dp + j - dp) = sp + j := by omega
    simpa [copyInto, hc, this] using hs

end Schema
