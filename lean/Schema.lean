/-
  Schema.lean — mechanised justification of the axiom schemas of /verif/spec/prelude.vc that are NOT definitional
  unfoldings (DESIGN.md, assumption SCHEMA). Core Lean 4 only (no Mathlib).

  Method. The SMT prelude introduces accumulator predicates (QAcc, PAcc, NAcc, ChangedOnlyZ, ...) by "introduction"
  axioms (zero / step / refl / set) and uses "elimination" axioms about them (len, fresh-key, idx, key, val, ...).
  Here every such predicate is DEFINED as the inductive closure of its introduction rules over an abstract ordered-map
  signature that satisfies the base axioms om-* of the prelude (class `OM`), and every elimination axiom is PROVED.
  Hence the accumulator axioms are a conservative extension of the om-* axioms: whatever the solvers derive from them
  holds in every model of om-*. The om-* axioms themselves are shown consistent by a list model at the end
  (namespace `ListModel`: association lists with pairwise distinct keys are an instance of `OM`).
  Array-indexed accumulators (matchAny, anyPrefix, MapStrip) are defined by recursion on the length and their
  step / monotonicity / store / elimination axioms are proved.
-/

set_option linter.unusedVariables false
set_option linter.unusedSimpArgs false

namespace Schema

/-- the base signature and axioms of ordered maps, exactly the axioms om-* of prelude.vc -/
class OM (M : Type) (V : outParam Type) where
  empty : M
  len : M → Int
  key : M → Int → String
  val : M → Int → V
  idx : M → String → Int
  set : M → String → V → M
  len_nonneg : ∀ m, 0 ≤ len m
  empty_len : len empty = 0
  empty_idx : ∀ k, idx empty k = -1
  idx_range : ∀ m k, -1 ≤ idx m k ∧ idx m k < len m ∧ (0 ≤ idx m k → key m (idx m k) = k)
  key_idx : ∀ m i, 0 ≤ i → i < len m → idx m (key m i) = i
  set_len : ∀ m k v, len (set m k v) = (if 0 ≤ idx m k then len m else len m + 1) ∧
                     idx (set m k v) k = (if 0 ≤ idx m k then idx m k else len m)
  set_key : ∀ m k v i, key (set m k v) i = (if idx m k < 0 ∧ i = len m then k else key m i)
  set_val : ∀ m k v i, val (set m k v) i = (if i = (if 0 ≤ idx m k then idx m k else len m) then v else val m i)
  set_idx : ∀ m k v j, j ≠ k → idx (set m k v) j = idx m j

open OM

variable {M V : Type} [OM M V]

/-! ### QAcc / PAcc / NAcc: one output entry per input entry -/

/-- the common shape of qacc-zero / qacc-step, pacc-zero / pacc-step, nacc-zero / nacc-step.
    `fn`: field names may be renamed (then a key may be overwritten); `keyOK k j`: admissible output key for input key k;
    `rel k v w`: admissible output value. -/
inductive AccP (fn : Bool) (keyOK : String → String → Prop) (rel : String → V → V → Prop) (a : M) : Int → M → Prop
  | zero : AccP fn keyOK rel a 0 (empty : M)
  | step {i : Int} {b : M} {j : String} {w : V} :
      AccP fn keyOK rel a i b → 0 ≤ i → i < len a → (fn = true ∨ idx b j < 0) →
      keyOK (key a i) j → rel (key a i) (val a i) w →
      AccP fn keyOK rel a (i + 1) (set b j w)

/-- invariant carried by the induction: without renaming, b has i entries and its keys are the first i keys of a -/
theorem acc_inv {keyOK : String → String → Prop} {rel : String → V → V → Prop} {a : M}
    (hk : ∀ k j, keyOK k j → j = k) {i : Int} {b : M} (h : AccP false keyOK rel a i b) :
    0 ≤ i ∧ len b = i ∧ ∀ s, 0 ≤ idx b s → ∃ p, 0 ≤ p ∧ p < i ∧ key a p = s := by
  induction h with
  | zero =>
    refine ⟨by omega, empty_len, ?_⟩
    intro s hs
    rw [empty_idx] at hs
    omega
  | step hacc hi0 hilt hfresh hkey hrel ih =>
    rename_i i b j w
    obtain ⟨_, hlen, hkeys⟩ := ih
    have hj : idx b j < 0 := by
      cases hfresh with
      | inl h => cases h
      | inr h => exact h
    have hjk : j = key a i := hk _ _ hkey
    refine ⟨by omega, ?_, ?_⟩
    · have := (set_len b j w).1
      rw [this]
      have : ¬ (0 ≤ idx b j) := by omega
      simp [this, hlen]
    · intro s hs
      by_cases hsj : s = j
      · exact ⟨i, hi0, by omega, by rw [hsj, hjk]⟩
      · rw [set_idx b j w s hsj] at hs
        obtain ⟨p, hp0, hpi, hpk⟩ := hkeys s hs
        exact ⟨p, hp0, by omega, hpk⟩

/-- qacc-len / pacc-len / nacc-len -/
theorem acc_len {keyOK : String → String → Prop} {rel : String → V → V → Prop} {a : M}
    (hk : ∀ k j, keyOK k j → j = k) {i : Int} {b : M} (h : AccP false keyOK rel a i b) : len b = i :=
  (acc_inv hk h).2.1

/-- qacc-fresh-key / pacc-fresh-key / nacc-fresh-key: the next input key is not yet a key of the output -/
theorem acc_fresh_key {keyOK : String → String → Prop} {rel : String → V → V → Prop} {a : M}
    (hk : ∀ k j, keyOK k j → j = k) {i : Int} {b : M} (h : AccP false keyOK rel a i b)
    (hi0 : 0 ≤ i) (hilt : i < len a) : idx b (key a i) < 0 := by
  obtain ⟨_, _, hkeys⟩ := acc_inv hk h
  by_cases hneg : idx b (key a i) < 0
  · exact hneg
  · exfalso
    obtain ⟨p, hp0, hpi, hpk⟩ := hkeys (key a i) (by omega)
    have h1 := key_idx a p hp0 (by omega)
    have h2 := key_idx a i hi0 hilt
    rw [hpk] at h1
    omega

/-! ### ChangedOnly*: same keys in the same order, values differ only at allowed keys -/

/-- common shape of coz-refl/coz-set, con-refl/con-set, coa-refl/coa-set (`allowed k`: the key may change its value;
    for ChangedOnlyAt a Set that stores the value already there is also admitted) -/
inductive Chg (allowed : String → Prop) (a : M) : M → Prop
  | refl : Chg allowed a a
  | set {b : M} {k : String} {v : V} :
      Chg allowed a b → 0 ≤ idx b k → (allowed k ∨ v = val b (idx b k)) → Chg allowed a (set b k v)

theorem chg_inv {allowed : String → Prop} {a b : M} (h : Chg allowed a b) :
    len b = len a ∧ (∀ k, idx b k = idx a k) ∧ (∀ i, key b i = key a i) ∧
    (∀ i, 0 ≤ i → i < len a → ¬ allowed (key a i) → val b i = val a i) := by
  induction h with
  | refl => exact ⟨rfl, fun _ => rfl, fun _ => rfl, fun _ _ _ _ => rfl⟩
  | set hc hidx hallow ih =>
    rename_i b k v
    obtain ⟨hl, hi, hkk, hv⟩ := ih
    have hpos : 0 ≤ idx b k := hidx
    refine ⟨?_, ?_, ?_, ?_⟩
    · rw [(set_len b k v).1]; simp [hpos, hl]
    · intro s
      by_cases hs : s = k
      · subst hs
        rw [(set_len b s v).2, if_pos hpos]; exact hi s
      · rw [set_idx b k v s hs, hi]
    · intro i
      rw [set_key b k v i]
      have : ¬ (idx b k < 0 ∧ i = len b) := by omega
      simp [this, hkk]
    · intro i hi0 hil hna
      rw [set_val b k v i]
      simp only [hpos, if_true]
      by_cases hik : i = idx b k
      · -- the written position: either the key is allowed (contradiction) or the same value is stored
        have hkey : key b i = k := by
          have := (idx_range b k).2.2 hpos
          rw [hik]; exact this
        rw [hkk] at hkey
        cases hallow with
        | inl ha => rw [hkey] at hna; exact absurd ha hna
        | inr hsame => simp [hik]; rw [hsame]; rw [← hik]; exact hv i hi0 hil hna
      · simp [hik]; exact hv i hi0 hil hna

/-- coz-len / con-len / coa-len -/
theorem chg_len {allowed : String → Prop} {a b : M} (h : Chg allowed a b) : len b = len a := (chg_inv h).1
/-- coz-idx / con-idx / coa-idx -/
theorem chg_idx {allowed : String → Prop} {a b : M} (h : Chg allowed a b) (k : String) : idx b k = idx a k := (chg_inv h).2.1 k
/-- coz-key -/
theorem chg_key {allowed : String → Prop} {a b : M} (h : Chg allowed a b) (i : Int) : key b i = key a i := (chg_inv h).2.2.1 i
/-- coz-val / coa-val -/
theorem chg_val {allowed : String → Prop} {a b : M} (h : Chg allowed a b) (i : Int) (h0 : 0 ≤ i) (h1 : i < len a)
    (hna : ¬ allowed (key a i)) : val b i = val a i := (chg_inv h).2.2.2 i h0 h1 hna


/-! ### frame lemma behind zonemap-frame / zonearr-frame / slotok-frame -/

/-- a Set on another existing key does not change the value stored at the position of key k -/
theorem val_set_other {b : M} {j k : String} {v : V} (hjk : j ≠ k) (hj : 0 ≤ idx b j) (hk : 0 ≤ idx b k) :
    val (set b j v) (idx b k) = val b (idx b k) ∧ idx (set b j v) k = idx b k := by
  have hne : idx b k ≠ idx b j := by
    intro h
    have h1 := (idx_range b j).2.2 hj
    have h2 := (idx_range b k).2.2 hk
    rw [h] at h2
    exact hjk (by rw [← h1, h2])
  refine ⟨?_, set_idx b j v k (Ne.symm hjk)⟩
  rw [set_val b j v (idx b k)]
  simp [hj, hne]

/-- zonemap-frame / zonearr-frame / slotok-frame: a fact about the value under key k (at the position it has in A) survives
    a Set on another existing key of B (P stands for the body of zonemap-def / zonearr-def / slotok-def) -/
theorem zone_frame {a b : M} {j k : String} {v : V} (P : V → Prop)
    (h : idx a k < 0 ∨ P (val b (idx a k))) (hjk : j ≠ k) (hj : 0 ≤ idx b j) (hidx : idx b k = idx a k) :
    idx a k < 0 ∨ P (val (set b j v) (idx a k)) := by
  cases h with
  | inl h => exact Or.inl h
  | inr h =>
    by_cases hneg : idx a k < 0
    · exact Or.inl hneg
    · right
      have hk : 0 ≤ idx b k := by omega
      have := (val_set_other (v := v) hjk hj hk).1
      rw [hidx] at this
      rw [this]; exact h

/-! ### array-indexed accumulators (arrays are functions on Int, as in the SMT encoding) -/

def store {α : Type} (a : Int → α) (i : Int) (x : α) : Int → α := fun j => if j = i then x else a j

/-- copyInto(d, dp, s, sp, n): d with d[dp .. dp+n) overwritten by s[sp .. sp+n) (model of Go's copy / append) -/
def copyInto {α : Type} (d : Int → α) (dp : Int) (s : Int → α) (sp : Int) (n : Int) : Int → α :=
  fun j => if dp ≤ j ∧ j < dp + n then s (sp + (j - dp)) else d j

/-- matchAny / anyPrefix / anyRefMatch: some element of a[o .. o+n) satisfies p -/
def anyP {α : Type} (p : α → Prop) (a : Int → α) (o n : Int) : Prop := ∃ j, 0 ≤ j ∧ j < n ∧ p (a (o + j))

/-- matchany-zero / anyprefix-zero / anyrefmatch-zero -/
theorem anyP_zero {α : Type} (p : α → Prop) (a : Int → α) (o : Int) : ¬ anyP p a o 0 := by
  intro ⟨j, h0, h1, _⟩; omega

/-- anyprefix-intro: a witness inside the segment -/
theorem anyP_intro {α : Type} (p : α → Prop) (a : Int → α) (o n i : Int) (h0 : 0 ≤ i) (h1 : i < n) (hp : p (a (o + i))) :
    anyP p a o n := ⟨i, h0, h1, hp⟩

/-- matchany-step / anyprefix-step / anyrefmatch-step -/
theorem anyP_step {α : Type} (p : α → Prop) (a : Int → α) (o n m : Int) (hm : m = n + 1) (hn : 0 ≤ n) :
    anyP p a o m ↔ (anyP p a o n ∨ p (a (o + n))) := by
  subst hm
  constructor
  · intro ⟨j, h0, h1, hp⟩
    by_cases hj : j = n
    · right; rw [← hj]; exact hp
    · left; exact ⟨j, h0, by omega, hp⟩
  · intro h
    cases h with
    | inl h => obtain ⟨j, h0, h1, hp⟩ := h; exact ⟨j, h0, by omega, hp⟩
    | inr h => exact ⟨n, hn, by omega, h⟩

/-- matchany-mono / anyprefix-mono / anyrefmatch-mono -/
theorem anyP_mono {α : Type} (p : α → Prop) (a : Int → α) (o n m : Int) (h : anyP p a o n) (hnm : n ≤ m) : anyP p a o m := by
  obtain ⟨j, h0, h1, hp⟩ := h; exact ⟨j, h0, by omega, hp⟩

/-- matchany-store-beyond -/
theorem anyP_store_beyond {α : Type} (p : α → Prop) (a : Int → α) (o n i : Int) (x : α) (hi : o + n ≤ i) :
    anyP p (store a i x) o n ↔ anyP p a o n := by
  constructor <;> intro ⟨j, h0, h1, hp⟩ <;> refine ⟨j, h0, h1, ?_⟩
  · have : o + j ≠ i := by omega
    simpa [store, this] using hp
  · have : o + j ≠ i := by omega
    simpa [store, this] using hp

/-- matchany-store-last -/
theorem anyP_store_last {α : Type} (p : α → Prop) (a : Int → α) (o m i : Int) (x : α) (hi : i = o + m - 1) (hm : 1 ≤ m) :
    anyP p (store a i x) o m ↔ (anyP p a o (m - 1) ∨ p x) := by
  constructor
  · intro ⟨j, h0, h1, hp⟩
    by_cases hj : o + j = i
    · right; simpa [store, hj] using hp
    · left; refine ⟨j, h0, by omega, ?_⟩; simpa [store, hj] using hp
  · intro h
    cases h with
    | inl h =>
      obtain ⟨j, h0, h1, hp⟩ := h
      refine ⟨j, h0, by omega, ?_⟩
      have : o + j ≠ i := by omega
      simpa [store, this] using hp
    | inr h =>
      refine ⟨m - 1, by omega, by omega, ?_⟩
      have : o + (m - 1) = i := by omega
      simpa [store, this] using h

/-- matchany-copy: the copied prefix (an append that reallocates) has the same matches -/
theorem anyP_copy {α : Type} (p : α → Prop) (d s : Int → α) (sp n m : Int) (hm : m = n) (hn : 0 ≤ n) :
    anyP p (copyInto d 0 s sp n) 0 m ↔ anyP p s sp n := by
  subst hm
  constructor <;> intro ⟨j, h0, h1, hp⟩ <;> refine ⟨j, h0, h1, ?_⟩
  · have hc : (0 : Int) ≤ j ∧ j < m := ⟨h0, h1⟩
    simpa [copyInto, hc] using hp
  · have hc : (0 : Int) ≤ j ∧ j < m := ⟨h0, h1⟩
    simpa [copyInto, hc] using hp

/-- MapStrip / MapP: b[bo+j] = f (a[ao+j]) for 0 ≤ j < n  (f = stripPort, resp. pseudo r) -/
def mapped {α β : Type} (f : α → β) (a : Int → α) (ao : Int) (b : Int → β) (bo n : Int) : Prop :=
  ∀ j, 0 ≤ j → j < n → b (bo + j) = f (a (ao + j))

/-- mapstrip-zero / mapp-zero -/
theorem mapped_zero {α β : Type} (f : α → β) (a : Int → α) (ao : Int) (b : Int → β) (bo : Int) : mapped f a ao b bo 0 := by
  intro j h0 h1; omega

/-- mapstrip-step / mapp-step -/
theorem mapped_step {α β : Type} (f : α → β) (a : Int → α) (ao : Int) (b : Int → β) (bo n i : Int) (x : β) (m : Int)
    (h : mapped f a ao b bo n) (hn : 0 ≤ n) (hm : m = n + 1) (hi : i = bo + n) (hx : x = f (a (ao + n))) :
    mapped f a ao (store b i x) bo m := by
  intro j h0 h1
  by_cases hj : j = n
  · subst hj; simp [store, hi, hx]
  · have : bo + j ≠ i := by omega
    simp [store, this]; exact h j h0 (by omega)

/-- mapstrip-elim -/
theorem mapped_elim {α β : Type} (f : α → β) (a : Int → α) (ao : Int) (b : Int → β) (bo n k : Int)
    (h : mapped f a ao b bo n) (h0 : bo ≤ k) (h1 : k < bo + n) : b k = f (a (ao + k - bo)) := by
  have := h (k - bo) (by omega) (by omega)
  have e1 : bo + (k - bo) = k := by omega
  have e2 : ao + (k - bo) = ao + k - bo := by omega
  rw [e1, e2] at this; exact this

/-- join of the first n elements, as strings.Join computes it -/
def joinN (a : Int → String) (sep : String) : Nat → String
  | 0 => ""
  | 1 => a 0
  | (n + 2) => joinN a sep (n + 1) ++ sep ++ a (n + 1)

theorem joinN_ext (a b : Int → String) (sep : String) (n : Nat) (h : ∀ j : Int, 0 ≤ j → j < n → a j = b j) :
    joinN a sep n = joinN b sep n := by
  induction n using Nat.strongRecOn with
  | _ n ih =>
    match n with
    | 0 => rfl
    | 1 => simp [joinN]; exact h 0 (by omega) (by omega)
    | (k + 2) =>
      simp only [joinN]
      rw [ih (k + 1) (by omega) (fun j h0 h1 => h j h0 (by omega))]
      rw [h (k + 1) (by omega) (by omega)]

/-- join-mapped: joining a mapped prefix only looks at the first n elements -/
theorem join_mapped {α : Type} (f : α → String) (a : Int → α) (ao : Int) (b : Int → String) (bo : Int) (n : Nat) (sep : String)
    (h : mapped f a ao b bo n) :
    joinN (fun j => b (bo + j)) sep n = joinN (fun j => f (a (ao + j))) sep n :=
  joinN_ext _ _ sep n (fun j h0 h1 => h j h0 h1)

/-! ### KAcc: an array rewritten in place, element by element (plan-summary keys, C15) -/

def shiftA {α : Type} (a : Int → α) (o : Int) : Int → α := fun j => a (o + j)

/-- KAcc(R, a, b, bo, n, L): b[bo+j] = f (a[j]) for j < n, and b[bo+j] = a[j] for n ≤ j < L  (f = psKey R) -/
def kacc {α : Type} (f : α → α) (a b : Int → α) (bo n l : Int) : Prop :=
  (∀ j, 0 ≤ j → j < n → b (bo + j) = f (a j)) ∧ (∀ j, n ≤ j → j < l → b (bo + j) = a j)

/-- kacc-zero -/
theorem kacc_zero {α : Type} (f : α → α) (a b : Int → α) (bo l : Int) (h : shiftA b bo = a) : kacc f a b bo 0 l := by
  constructor
  · intro j h0 h1; omega
  · intro j _ _; rw [← h]; rfl

/-- kacc-step -/
theorem kacc_step {α : Type} (f : α → α) (a b : Int → α) (bo n l i : Int) (x : α) (m : Int)
    (h : kacc f a b bo n l) (hn : 0 ≤ n) (_hl : n < l) (hm : m = n + 1) (hi : i = bo + n) (hx : x = f (a n)) :
    kacc f a (store b i x) bo m l := by
  constructor
  · intro j h0 h1
    by_cases hj : j = n
    · subst hj; simp [store, hi, hx]
    · have : bo + j ≠ i := by omega
      simp [store, this]; exact h.1 j h0 (by omega)
  · intro j h0 h1
    have : bo + j ≠ i := by omega
    simp [store, this]; exact h.2 j (by omega) h1

/-- kacc-skip -/
theorem kacc_skip {α : Type} (f : α → α) (a b : Int → α) (bo n l m : Int)
    (h : kacc f a b bo n l) (_hn : 0 ≤ n) (hl : n < l) (hm : m = n + 1) (hfix : f (a n) = a n) : kacc f a b bo m l := by
  constructor
  · intro j h0 h1
    by_cases hj : j = n
    · subst hj; rw [hfix]; exact h.2 j (by omega) hl
    · exact h.1 j h0 (by omega)
  · intro j h0 h1; exact h.2 j (by omega) h1

/-- kacc-cur -/
theorem kacc_cur {α : Type} (f : α → α) (a b : Int → α) (bo n l : Int) (h : kacc f a b bo n l) (_hn : 0 ≤ n) (hl : n < l) :
    b (bo + n) = a n := h.2 n (by omega) hl

/-- kacc-join -/
theorem kacc_join (f : String → String) (a b : Int → String) (bo : Int) (l : Nat) (sep : String) (h : kacc f a b bo l l) :
    joinN (fun j => b (bo + j)) sep l = joinN (fun j => f (a j)) sep l :=
  joinN_ext _ _ sep l (fun j h0 h1 => h.1 j h0 h1)

/-- shift-store -/
theorem shift_store {α : Type} (a : Int → α) (i : Int) (x : α) (o : Int) : shiftA (store a i x) o = store (shiftA a o) (i - o) x := by
  funext j
  simp only [shiftA, store]
  by_cases hj : o + j = i
  · have h2 : j = i - o := by omega
    rw [if_pos hj, if_pos h2]
  · have h2 : ¬ j = i - o := by omega
    rw [if_neg hj, if_neg h2]

/-! ### sets of strings (SSet) and the element set of an array segment -/

abbrev SSet := String → Prop
def sEmpty : SSet := fun _ => False
def sAdd (t : SSet) (x : String) : SSet := fun y => x = y ∨ t y
def sDel (t : SSet) (x : String) : SSet := fun y => t y ∧ y ≠ x
def sUnion (t e : SSet) : SSet := fun y => t y ∨ e y
def sMinus (t e : SSet) : SSet := fun y => t y ∧ ¬ e y
def sSubset (t e : SSet) : Prop := ∀ y, t y → e y
def elemsS (a : Int → String) (o n : Int) : SSet := fun s => ∃ j, 0 ≤ j ∧ j < n ∧ a (o + j) = s

theorem set_ext {t e : SSet} (h : ∀ y, t y ↔ e y) : t = e := funext fun y => propext (h y)

theorem set_sub_refl (s : SSet) : sSubset s s := fun _ h => h
theorem set_sub_empty (s : SSet) (h : sSubset s sEmpty) : s = sEmpty := set_ext fun y => ⟨h y, False.elim⟩
theorem set_minus_union (t e : SSet) : sSubset (sMinus (sUnion t e) e) t := by
  intro y ⟨h1, h2⟩; cases h1 with
  | inl h => exact h
  | inr h => exact absurd h h2
theorem set_empty_union (e : SSet) : sUnion sEmpty e = e := set_ext fun y => ⟨fun h => h.elim False.elim id, Or.inr⟩
theorem set_minus_self (e : SSet) : sMinus e e = sEmpty := set_ext fun y => ⟨fun ⟨h1, h2⟩ => h2 h1, False.elim⟩
theorem set_union_empty (t : SSet) : sUnion t sEmpty = t := set_ext fun y => ⟨fun h => h.elim id False.elim, Or.inl⟩
theorem set_union_add (t e : SSet) (x : String) : sUnion t (sAdd e x) = sAdd (sUnion t e) x :=
  set_ext fun y => by simp only [sUnion, sAdd]; constructor <;> intro h <;> rcases h with h | h | h <;> simp [h]
theorem set_minus_empty (t : SSet) : sMinus t sEmpty = t := set_ext fun y => ⟨fun h => h.1, fun h => ⟨h, id⟩⟩
theorem set_minus_add (t e : SSet) (x : String) : sMinus t (sAdd e x) = sDel (sMinus t e) x :=
  set_ext fun y => by
    simp only [sMinus, sAdd, sDel]
    constructor
    · intro ⟨h1, h2⟩; exact ⟨⟨h1, fun he => h2 (Or.inr he)⟩, fun hy => h2 (Or.inl hy.symm)⟩
    · intro ⟨⟨h1, h2⟩, h3⟩; exact ⟨h1, fun h => h.elim (fun hx => h3 hx.symm) h2⟩
theorem set_del_add (t : SSet) (x : String) (h : ¬ t x) : sDel (sAdd t x) x = t :=
  set_ext fun y => by
    simp only [sDel, sAdd]
    constructor
    · intro ⟨h1, h2⟩; exact h1.elim (fun hx => absurd hx.symm h2) id
    · intro hy; exact ⟨Or.inr hy, fun hyx => h (hyx ▸ hy)⟩
theorem set_del_notmem (t : SSet) (x : String) : ¬ sDel t x x := fun h => h.2 rfl
theorem set_mem_add (t : SSet) (x y : String) : sAdd t x y ↔ (x = y ∨ t y) := Iff.rfl
theorem set_mem_empty (x : String) : ¬ sEmpty x := id

/-- elems-zero -/
theorem elems_zero (a : Int → String) (o : Int) : elemsS a o 0 = sEmpty :=
  set_ext fun s => ⟨fun ⟨j, h0, h1, _⟩ => by omega, False.elim⟩
/-- elems-step -/
theorem elems_step (a : Int → String) (o n m : Int) (hm : m = n + 1) (hn : 0 ≤ n) : elemsS a o m = sAdd (elemsS a o n) (a (o + n)) := by
  subst hm
  apply set_ext; intro s
  constructor
  · intro ⟨j, h0, h1, hs⟩
    by_cases hj : j = n
    · left; rw [← hj]; exact hs
    · right; exact ⟨j, h0, by omega, hs⟩
  · intro h
    cases h with
    | inl h => exact ⟨n, hn, by omega, h⟩
    | inr h => obtain ⟨j, h0, h1, hs⟩ := h; exact ⟨j, h0, by omega, hs⟩
/-- elems-store-outside -/
theorem elems_store_outside (a : Int → String) (i : Int) (x : String) (o m : Int) (h : i < o ∨ o + m ≤ i) :
    elemsS (store a i x) o m = elemsS a o m := by
  apply set_ext; intro s
  constructor <;> intro ⟨j, h0, h1, hs⟩ <;> refine ⟨j, h0, h1, ?_⟩
  · have : o + j ≠ i := by omega
    simpa [store, this] using hs
  · have : o + j ≠ i := by omega
    simpa [store, this] using hs
/-- elems-store-end (and elems-store-last, its instance n = m - 1) -/
theorem elems_store_end (a : Int → String) (i : Int) (x : String) (o n m : Int) (hm : m = n + 1) (hn : 0 ≤ n) (hi : i = o + n) :
    elemsS (store a i x) o m = sAdd (elemsS a o n) x := by
  rw [elems_step (store a i x) o n m hm hn]
  have h1 : elemsS (store a i x) o n = elemsS a o n := elems_store_outside a i x o n (Or.inr (by omega))
  have h2 : store a i x (o + n) = x := by simp [store, hi]
  rw [h1, h2]
/-- elems-copy -/
theorem elems_copy (d : Int → String) (dp : Int) (s : Int → String) (sp n o m : Int) (ho : dp = o) (hm : m = n) :
    elemsS (copyInto d dp s sp n) o m = elemsS s sp n := by
  subst ho; subst hm
  apply set_ext; intro t
  constructor <;> intro ⟨j, h0, h1, hs⟩ <;> refine ⟨j, h0, h1, ?_⟩
  · have hc : dp ≤ dp + j ∧ dp + j < dp + m := by omega
    have : sp + (dp + j - dp) = sp + j := by omega
    simpa [copyInto, hc, this] using hs
  · have hc : dp ≤ dp + j ∧ dp + j < dp + m := by omega
    have : sp + (dp + j - dp) = sp + j := by omega
    simpa [copyInto, hc, this] using hs


/-! ### a model of the base axioms om-*: association lists with pairwise distinct keys (consistency of `OM`) -/

namespace ListModel

variable {V : Type}

def lidx : List (String × V) → String → Int
  | [], _ => -1
  | (k', _) :: t, k => if k' = k then 0 else (if lidx t k < 0 then -1 else lidx t k + 1)

def lkey : List (String × V) → Int → String
  | [], _ => ""
  | (k', _) :: t, i => if i = 0 then k' else lkey t (i - 1)

def lval [Inhabited V] : List (String × V) → Int → V
  | [], _ => default
  | (_, v') :: t, i => if i = 0 then v' else lval t (i - 1)

def lset : List (String × V) → String → V → List (String × V)
  | [], k, v => [(k, v)]
  | (k', v') :: t, k, v => if k' = k then (k', v) :: t else (k', v') :: lset t k v

def llen (l : List (String × V)) : Int := l.length

def keysOf (l : List (String × V)) : List String := l.map Prod.fst

theorem llen_cons (p : String × V) (t : List (String × V)) : llen (p :: t) = llen t + 1 := by
  simp [llen]

theorem llen_nonneg (l : List (String × V)) : 0 ≤ llen l := by simp [llen]

theorem lidx_range (l : List (String × V)) (k : String) :
    -1 ≤ lidx l k ∧ lidx l k < llen l ∧ (0 ≤ lidx l k → lkey l (lidx l k) = k) := by
  induction l with
  | nil => simp [lidx, llen]
  | cons p t ih =>
    obtain ⟨k', v'⟩ := p
    obtain ⟨h1, h2, h3⟩ := ih
    simp only [lidx, llen_cons]
    by_cases hk : k' = k
    · simp [hk, lkey]; have := llen_nonneg t; omega
    · simp only [hk, if_false]
      by_cases hn : lidx t k < 0
      · simp only [hn, if_true]; refine ⟨by omega, by have := llen_nonneg t; omega, by intro h; omega⟩
      · simp only [hn, if_false]
        refine ⟨by omega, by omega, ?_⟩
        intro _
        have hne : lidx t k + 1 ≠ 0 := by omega
        simp only [lkey, hne, if_false]
        have : lidx t k + 1 - 1 = lidx t k := by omega
        rw [this]; exact h3 (by omega)

theorem lidx_neg_of_not_mem (l : List (String × V)) (k : String) (h : k ∉ keysOf l) : lidx l k < 0 := by
  induction l with
  | nil => simp [lidx]
  | cons p t ih =>
    obtain ⟨k', v'⟩ := p
    simp only [keysOf, List.map_cons, List.mem_cons, not_or] at h
    have hk : ¬ k' = k := fun e => h.1 e.symm
    have := ih (by simpa [keysOf] using h.2)
    simp [lidx, hk, this]

theorem lkey_mem (l : List (String × V)) (i : Int) (h0 : 0 ≤ i) (h1 : i < llen l) : lkey l i ∈ keysOf l := by
  induction l generalizing i with
  | nil => simp [llen] at h1; omega
  | cons p t ih =>
    obtain ⟨k', v'⟩ := p
    rw [llen_cons] at h1
    by_cases hi : i = 0
    · simp [lkey, hi, keysOf]
    · simp only [lkey, hi, if_false, keysOf, List.map_cons, List.mem_cons]
      right; exact ih (i - 1) (by omega) (by omega)

theorem lkey_lidx (l : List (String × V)) (hnd : (keysOf l).Nodup) (i : Int) (h0 : 0 ≤ i) (h1 : i < llen l) :
    lidx l (lkey l i) = i := by
  induction l generalizing i with
  | nil => simp [llen] at h1; omega
  | cons p t ih =>
    obtain ⟨k', v'⟩ := p
    rw [llen_cons] at h1
    simp only [keysOf, List.map_cons, List.nodup_cons] at hnd
    by_cases hi : i = 0
    · simp [lkey, hi, lidx]
    · have hmem := lkey_mem t (i - 1) (by omega) (by omega)
      have hne : ¬ k' = lkey t (i - 1) := by
        intro e; apply hnd.1; rw [e]; simpa [keysOf] using hmem
      have hrec := ih (by simpa [keysOf] using hnd.2) (i - 1) (by omega) (by omega)
      simp only [lkey, hi, if_false, lidx, hne]
      rw [hrec]
      have : ¬ (i - 1 < 0) := by omega
      simp only [this, if_false]; omega

theorem lset_len_idx (l : List (String × V)) (k : String) (v : V) :
    llen (lset l k v) = (if 0 ≤ lidx l k then llen l else llen l + 1) ∧
    lidx (lset l k v) k = (if 0 ≤ lidx l k then lidx l k else llen l) := by
  induction l with
  | nil => simp [lset, lidx, llen]
  | cons p t ih =>
    obtain ⟨k', v'⟩ := p
    obtain ⟨ih1, ih2⟩ := ih
    by_cases hk : k' = k
    · simp [lset, lidx, hk, llen_cons]
    · have hl := llen_nonneg t
      by_cases hn : lidx t k < 0
      · have hnn : ¬ (0 ≤ lidx t k) := by omega
        rw [if_neg hnn] at ih1 ih2
        have e1 : lidx ((k', v') :: t) k = -1 := by simp [lidx, hk, hn]
        have e2 : lidx (lset ((k', v') :: t) k v) k = llen t + 1 := by
          have hlt : ¬ (llen t < 0) := by omega
          simp only [lset, hk, if_false, lidx]
          rw [ih2]; simp [hlt]
        have e3 : llen (lset ((k', v') :: t) k v) = llen t + 1 + 1 := by
          simp only [lset, hk, if_false, llen_cons]; rw [ih1]
        have hm1 : ¬ ((0:Int) ≤ -1) := by omega
        rw [e1, e2, e3, llen_cons, if_neg hm1, if_neg hm1]
        exact ⟨rfl, rfl⟩
      · have hnn : 0 ≤ lidx t k := by omega
        rw [if_pos hnn] at ih1 ih2
        have e1 : lidx ((k', v') :: t) k = lidx t k + 1 := by simp [lidx, hk, hn]
        have e2 : lidx (lset ((k', v') :: t) k v) k = lidx t k + 1 := by
          simp only [lset, hk, if_false, lidx]
          rw [ih2]; simp [hn]
        have e3 : llen (lset ((k', v') :: t) k v) = llen t + 1 := by
          simp only [lset, hk, if_false, llen_cons]; rw [ih1]
        have hp : (0:Int) ≤ lidx t k + 1 := by omega
        rw [e1, e2, e3, llen_cons, if_pos hp, if_pos hp]
        exact ⟨rfl, rfl⟩

theorem lset_idx_other (l : List (String × V)) (k : String) (v : V) (j : String) (hjk : j ≠ k) :
    lidx (lset l k v) j = lidx l j := by
  induction l with
  | nil =>
    have : ¬ k = j := fun e => hjk e.symm
    simp [lset, lidx, this]
  | cons p t ih =>
    obtain ⟨k', v'⟩ := p
    by_cases hk : k' = k
    · simp [lset, hk, lidx]
    · simp only [lset, hk, if_false, lidx]; rw [ih]

theorem lset_key (l : List (String × V)) (k : String) (v : V) (i : Int) :
    lkey (lset l k v) i = (if lidx l k < 0 ∧ i = llen l then k else lkey l i) := by
  induction l generalizing i with
  | nil =>
    by_cases hi : i = 0
    · simp [lset, lkey, lidx, llen, hi]
    · simp [lset, lkey, lidx, llen, hi]
  | cons p t ih =>
    obtain ⟨k', v'⟩ := p
    by_cases hk : k' = k
    · subst hk
      have h0 : ¬ (lidx ((k', v') :: t) k' < 0) := by simp [lidx]
      simp only [lset, if_true, h0, false_and, if_false, lkey]
    · simp only [lset, hk, if_false, lkey, lidx, llen_cons]
      by_cases hi : i = 0
      · have : ¬ ((0:Int) = llen t + 1) := by have := llen_nonneg t; omega
        simp [hi, this]
      · simp only [hi, if_false]
        rw [ih (i - 1)]
        by_cases hn : lidx t k < 0
        · have e : (i - 1 = llen t) ↔ (i = llen t + 1) := by constructor <;> intro h <;> omega
          simp [hn, e]
        · have h1 : ¬ (lidx t k + 1 < 0) := by omega
          simp [hn, h1]

theorem lset_val [Inhabited V] (l : List (String × V)) (k : String) (v : V) (i : Int) :
    lval (lset l k v) i = (if i = (if 0 ≤ lidx l k then lidx l k else llen l) then v else lval l i) := by
  induction l generalizing i with
  | nil =>
    by_cases hi : i = 0
    · simp [lset, lval, lidx, llen, hi]
    · simp [lset, lval, lidx, llen, hi]
  | cons p t ih =>
    obtain ⟨k', v'⟩ := p
    by_cases hk : k' = k
    · by_cases hi : i = 0
      · simp [lset, hk, lidx, lval, hi]
      · simp [lset, hk, lidx, lval, hi]
    · simp only [lset, hk, if_false, lval, lidx, llen_cons]
      by_cases hi : i = 0
      · by_cases hn : lidx t k < 0
        · have h1 : ¬ ((0:Int) ≤ -1) := by omega
          have h2 : ¬ ((0:Int) = llen t + 1) := by have := llen_nonneg t; omega
          simp [hi, hn, h1, h2]
        · have h1 : (0:Int) ≤ lidx t k + 1 := by omega
          have h2 : ¬ ((0:Int) = lidx t k + 1) := by omega
          simp [hi, hn, h1, h2]
      · simp only [hi, if_false]
        rw [ih (i - 1)]
        by_cases hn : lidx t k < 0
        · have h0 : ¬ (0 ≤ lidx t k) := by omega
          have h1 : ¬ ((0:Int) ≤ -1) := by omega
          have e : (i - 1 = llen t) ↔ (i = llen t + 1) := by constructor <;> intro h <;> omega
          simp [hn, h0, h1, e]
        · have h0 : 0 ≤ lidx t k := by omega
          have h1 : (0:Int) ≤ lidx t k + 1 := by omega
          have e : (i - 1 = lidx t k) ↔ (i = lidx t k + 1) := by constructor <;> intro h <;> omega
          simp [hn, h0, h1, e]

theorem lset_keys_nodup (l : List (String × V)) (k : String) (v : V) (hnd : (keysOf l).Nodup) :
    (keysOf (lset l k v)).Nodup := by
  induction l with
  | nil => simp [lset, keysOf]
  | cons p t ih =>
    obtain ⟨k', v'⟩ := p
    simp only [keysOf, List.map_cons, List.nodup_cons] at hnd
    by_cases hk : k' = k
    · simp only [lset, hk, if_true, keysOf, List.map_cons, List.nodup_cons]
      rw [← hk]; exact hnd
    · simp only [lset, hk, if_false, keysOf, List.map_cons, List.nodup_cons]
      refine ⟨?_, ih (by simpa [keysOf] using hnd.2)⟩
      intro hmem
      -- a key of lset t k v is k or a key of t
      have : ∀ (l : List (String × V)) (x : String), x ∈ (lset l k v).map Prod.fst → x = k ∨ x ∈ l.map Prod.fst := by
        intro l
        induction l with
        | nil => intro x hx; simp [lset] at hx; exact Or.inl hx
        | cons q u ihu =>
          obtain ⟨k2, v2⟩ := q
          intro x hx
          by_cases h2 : k2 = k
          · simp [lset, h2] at hx
            cases hx with
            | inl h => exact Or.inl h
            | inr h => right; simp; exact Or.inr h
          · simp [lset, h2] at hx
            cases hx with
            | inl h => right; simp [h]
            | inr h =>
              cases ihu x (by simpa using h) with
              | inl h' => exact Or.inl h'
              | inr h' => right; simp; exact Or.inr (by simpa using h')
      cases this t k' hmem with
      | inl h => exact hk h
      | inr h => exact hnd.1 h

/-- association lists with pairwise distinct keys -/
structure LMap (V : Type) where
  l : List (String × V)
  nd : (keysOf l).Nodup

/-- the list model satisfies every base axiom of the ordered-map signature: the axioms om-* are consistent -/
instance [Inhabited V] : OM (LMap V) V where
  empty := ⟨[], by simp [keysOf]⟩
  len m := llen m.l
  key m i := lkey m.l i
  val m i := lval m.l i
  idx m k := lidx m.l k
  set m k v := ⟨lset m.l k v, lset_keys_nodup m.l k v m.nd⟩
  len_nonneg m := llen_nonneg m.l
  empty_len := by simp [llen]
  empty_idx k := by simp [lidx]
  idx_range m k := lidx_range m.l k
  key_idx m i h0 h1 := lkey_lidx m.l m.nd i h0 h1
  set_len m k v := lset_len_idx m.l k v
  set_key m k v i := lset_key m.l k v i
  set_val m k v i := lset_val m.l k v i
  set_idx m k v j h := lset_idx_other m.l k v j h

end ListModel

end Schema
