#!/bin/sh
# Must-fail / must-pass corpus for the engine. Each mutants/<Cxx>-<name>.patch is applied to a scratch worktree of
# /repo (under /tmp, removed afterwards); the check of property Cxx must exit 1 with a VIOLATION line.
# Each benign/<Cxx>-<name>.patch must leave the check of Cxx at exit 0. Usage: run.sh [pattern] [--tests]
export GOFLAGS=-mod=mod GOPROXY=off
pat="${1:-}"
runtests=0; [ "$2" = "--tests" ] && runtests=1
fail=0
for kind in mutants benign; do
  for patch in /verif/selftest/$kind/*$pat*.patch; do
    [ -f "$patch" ] || continue
    name=$(basename "$patch" .patch); prop=${name%%-*}
    wt=$(mktemp -d /tmp/govc-selftest.XXXXXX); rmdir "$wt"
    git -C /repo worktree add -q --detach "$wt" HEAD || { echo "ERROR worktree"; exit 2; }
    if ! git -C "$wt" apply "$patch" 2>/dev/null; then echo "SKIP  $name (patch does not apply)"; git -C /repo worktree remove --force "$wt"; continue; fi
    if [ $runtests = 1 ]; then
      (cd "$wt" && go test -vet=off -count=1 ./... >/dev/null 2>&1) && t="tests-pass" || t="TESTS-FAIL"
    else t=""; fi
    out=$(VERIF_REPO="$wt" GOVC_NO_WITNESS="${GOVC_NO_WITNESS:-}" /verif/bin/govc check "$prop" 2>&1); rc=$?
    nviol=$(printf '%s\n' "$out" | grep -c '^VIOLATION')
    if [ $kind = mutants ]; then
      if [ $rc = 1 ] && [ "$nviol" -gt 0 ]; then echo "ok    $name caught ($nviol) $t: $(printf '%s\n' "$out" | grep '^VIOLATION' | head -2 | sed 's/.*obligation=//' | tr '\n' ' ')"; else echo "MISS  $name rc=$rc $t"; fail=1; fi
    else
      if [ $rc = 0 ]; then echo "ok    $name stays green $t"; else echo "FALSE-ALARM $name rc=$rc $t: $(printf '%s\n' "$out" | grep '^VIOLATION' | head -3)"; fail=1; fi
    fi
    git -C /repo worktree remove --force "$wt"
  done
done
exit $fail
