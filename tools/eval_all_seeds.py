#!/usr/bin/env python3
"""Re-confirms every seeded change under /verif/seeded against the current /repo HEAD and the current checks, and rewrites
seeded/<id>/meta.json and seeded/INDEX.md. Each change is applied in a scratch worktree (removed afterwards)."""
import json, os, re, subprocess, sys
rows=[]
only=sys.argv[1:] 
for pid in sorted(os.listdir('/verif/seeded')):
    d='/verif/seeded/'+pid
    if not os.path.isdir(d) or (only and pid not in only): continue
    meta={"property":pid,"changes":[]}
    for x in 'ABCD':
        if not os.path.exists(d+'/patch%s.diff'%x): continue
        out=subprocess.run(['/verif/tools/eval_seed.sh',d,pid,'patch%s.diff'%x,'demo%s_test.go'%x],capture_output=True,text=True,env=dict(os.environ,GOVC_NO_WITNESS='1')).stdout
        line=[l for l in out.splitlines() if l.startswith(pid+' ')]
        line=line[-1] if line else out[-300:]
        m=re.search(r'demo-clean=(\S+) suite-with-change=(\S+) demo-with-change=(\S+) check=(\S+) rc=(\d+) violations=(\d+)(.*)',line)
        notes=''
        np=d+'/notes%s.md'%x
        needs=[]
        if os.path.exists(np):
            for l in open(np).read().splitlines():
                if re.search(r'manifest|needs|only shows|only when|trigger',l,re.I) and len(needs)<3: needs.append(l.strip(' -*'))
        ch={"change":x,"patch":"patch%s.diff"%x,"demonstration":"demo%s_test.go"%x,
            "ported_from":("patch%s.original-pinned-tree.diff"%x if os.path.exists(d+'/patch%s.original-pinned-tree.diff'%x) else None),
            "needs_to_manifest":needs,
            "what_was_run":"tools/eval_seed.sh: scratch worktree of /repo HEAD; go test -run TestDemo (unchanged tree); git apply; go test ./... ; go test -run TestDemo; VERIF_REPO=<worktree> govc check %s"%pid}
        if m:
            ch.update({"demo_on_unchanged_tree":m.group(1),"suite_with_change":m.group(2),"demo_with_change":m.group(3),"check":m.group(4),"violations":int(m.group(6)),
                       "obligations_reported":re.sub(r' no-failing-input-found','',m.group(7)).split()[:3]})
        else:
            ch["raw"]=line
        meta["changes"].append(ch)
        rows.append((pid,x,ch))
        print(pid,x,ch.get("check"),flush=True)
    json.dump(meta,open(d+'/meta.json','w'),indent=1)
