#!/usr/bin/env python3
"""Re-confirms every seeded change under /verif/seeded against the current /repo HEAD and the current checks, and rewrites
seeded/<id>/meta.json and seeded/INDEX.md. Each change is applied in a scratch worktree (removed afterwards)."""
import json, os, re, subprocess, sys
from concurrent.futures import ThreadPoolExecutor
rows=[]
only=sys.argv[1:] 
def evalprop(pid):
    rows=[]
    d='/verif/seeded/'+pid
    if not os.path.isdir(d) or (only and pid not in only): return rows
    meta={"property":pid,"changes":[]}
    for x in 'ABCDEFGHIJKL':
        if not os.path.exists(d+'/patch%s.diff'%x): continue
        out=subprocess.run(['/verif/tools/eval_seed.sh',d,pid,'patch%s.diff'%x,'demo%s_test.go'%x],capture_output=True,text=True,env=dict(os.environ,GOVC_NO_WITNESS='1')).stdout
        line=[l for l in out.splitlines() if l.startswith(pid+' ')]
        line=line[-1] if line else out[-300:]
        m=re.search(r'demo-clean=(\S+) suite-with-change=(\S+) demo-with-change=(\S+) check=(\S+) rc=(\d+) violations=(\d+)(.*)',line)
        notes=''
        np=d+'/notes%s.md'%x
        needs=[]
        if os.path.exists(np):
            for l in open(np).read().splitlines():
                if re.search(r'manifest|needs|only shows|only when|trigger',l,re.I) and len(needs)<3: needs.append(l.strip(' -*'))
        ch={"change":x,"patch":"patch%s.diff"%x,"demonstration":"demo%s_test.go"%x,
            "ported_from":("patch%s.original-pinned-tree.diff"%x if os.path.exists(d+'/patch%s.original-pinned-tree.diff'%x) else None),
            "needs_to_manifest":needs,
            "what_was_run":"tools/eval_seed.sh: scratch worktree of /repo HEAD; go test -run TestDemo (unchanged tree); git apply; go test ./... ; go test -run TestDemo; VERIF_REPO=<worktree> govc check %s"%pid}
        if m:
            ch.update({"demo_on_unchanged_tree":m.group(1),"suite_with_change":m.group(2),"demo_with_change":m.group(3),"check":m.group(4),"violations":int(m.group(6)),
                       "obligations_reported":re.sub(r' no-failing-input-found','',m.group(7)).split()[:3]})
        else:
            ch["raw"]=line
        meta["changes"].append(ch)
        rows.append((pid,x,ch))
        print(pid,x,ch.get("check"),flush=True)
    json.dump(meta,open(d+'/meta.json','w'),indent=1)
    return rows
with ThreadPoolExecutor(max_workers=4) as ex:
    for r in ex.map(evalprop, sorted(os.listdir('/verif/seeded'))):
        rows.extend(r)

if not only:
    with open('/verif/seeded/INDEX.md','w') as f:
        f.write("# Seeded changes\n\nEach change was produced by a sub-agent that saw only the property text and a scratch worktree, and was re-confirmed by\n`tools/eval_all_seeds.py` on the current tree: the unedited suite passes with it, its demonstration fails with it and passes\nwithout it. `check` = result of `./check <id>` against the change (scratch worktree, `VERIF_REPO`).\n\n")
        f.write("| property | change | needs to manifest | confirmed (demo clean / suite with / demo with) | check | obligations reported (first 3) |\n|---|---|---|---|---|---|\n")
        for pid,x,ch in rows:
            needs=(ch.get("needs_to_manifest") or [""])[0][:260].replace("|","/")
            f.write("| %s | %s%s | %s | %s / %s / %s | %s | %s |\n"%(pid,x," (ported)" if ch.get("ported_from") else "",needs,ch.get("demo_on_unchanged_tree"),ch.get("suite_with_change"),ch.get("demo_with_change"),ch.get("check"),' '.join('`%s`'%o for o in ch.get("obligations_reported",[]))))
        nk='/verif/seeded/C14/not-kept/README.md'
        if os.path.exists(nk): f.write("\nNot kept: C14 change B (see `C14/not-kept/README.md`).\n")
