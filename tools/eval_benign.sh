#!/bin/sh
# eval_benign.sh <patch> [props...] : a behaviour-preserving change must leave every check green. Applies the patch in a scratch
# worktree (removed afterwards), runs the suite, then the listed checks (default: all 20). Prints one line per alarm and a summary line.
export GOFLAGS=-mod=mod GOPROXY=off
pf=$1; shift
props="$*"; [ -z "$props" ] && props="C01 C02 C03 C04 C05 C06 C07 C08 C09 C10 C11 C12 C13 C14 C15 C16 C17 C18 C19 C20"
wt=$(mktemp -d /tmp/govc-ben.XXXXXX); rmdir "$wt"
git -C /repo worktree add -q --detach "$wt" HEAD || exit 2
trap 'git -C /repo worktree remove --force "$wt" >/dev/null 2>&1' EXIT
cp /repo/src/contracts_verif.go "$wt/src/contracts_verif.go"
git -C "$wt" apply "$pf" 2>/dev/null || { echo "$(basename $pf): PATCH-DOES-NOT-APPLY"; exit 1; }
(cd "$wt" && go test -vet=off -count=1 -timeout 300s ./... >/dev/null 2>&1) && suite=pass || suite=FAIL
alarms=""
out=$(VERIF_REPO="$wt" GOVC_NO_WITNESS=1 /verif/bin/govc multi $props 2>&1)
for p in $props; do
  if printf '%s\n' "$out" | grep -q "^VIOLATION property=$p "; then
    alarms="$alarms $p"
    printf '%s\n' "$out" | grep "^VIOLATION property=$p " | head -4 | sed "s|^|    $(basename $pf) $p: |" | cut -c1-260
  fi
done
if printf '%s\n' "$out" | grep -q "^ERROR"; then alarms="$alarms ENGINE-ERROR"; fi
echo "$(basename $(dirname $pf))/$(basename $pf): suite=$suite alarms=[${alarms# }]"
