#!/bin/sh
# eval_seed.sh <dir-with-patch+demo> <Cxx> <patchfile> <demofile> : confirm a seeded change (suite passes with it, demo fails with
# it and passes without it) in a scratch worktree, then run the check of the property against it. Prints one summary line.
export GOFLAGS=-mod=mod GOPROXY=off
dir=$1; prop=$2; patch=$3; demo=$4
wt=$(mktemp -d /tmp/govc-seed.XXXXXX); rmdir "$wt"
git -C /repo worktree add -q --detach "$wt" HEAD || { echo "ERROR worktree"; exit 2; }
trap 'git -C /repo worktree remove --force "$wt" >/dev/null 2>&1' EXIT
demoname=zz_$(basename "$demo")
# 1. demo passes on the unchanged tree
cp "$dir/$demo" "$wt/src/$demoname"
(cd "$wt" && go test -vet=off -count=1 -timeout 300s -run 'TestDemo' ./src >"$wt/../demo_clean.$$" 2>&1) && d0=pass || d0=FAIL
rm -f "$wt/src/$demoname"
# 2. suite passes with the change
if ! git -C "$wt" apply "$dir/$patch" 2>/dev/null; then echo "$prop $patch: PATCH-DOES-NOT-APPLY"; exit 1; fi
(cd "$wt" && go test -vet=off -count=1 -timeout 300s ./... >/dev/null 2>&1) && s1=pass || s1=FAIL
# 3. demo fails with the change
cp "$dir/$demo" "$wt/src/$demoname"
(cd "$wt" && go test -vet=off -count=1 -timeout 300s -run 'TestDemo' ./src >/dev/null 2>&1) && d1=pass || d1=fail
rm -f "$wt/src/$demoname" /tmp/demo_clean.$$
# 4. the check
out=$(VERIF_REPO="$wt" GOVC_NO_WITNESS="${GOVC_NO_WITNESS:-}" /verif/bin/govc check "$prop" 2>&1); rc=$?
nviol=$(printf '%s\n' "$out" | grep -c '^VIOLATION')
obs=$(printf '%s\n' "$out" | grep '^VIOLATION' | head -3 | sed 's/.*obligation=//' | tr '\n' ' ')
verdict=MISSED; [ $rc = 1 ] && [ "$nviol" -gt 0 ] && verdict=CAUGHT
[ $rc = 2 ] && verdict=ENGINE-ERROR
echo "$prop $patch: demo-clean=$d0 suite-with-change=$s1 demo-with-change=$d1 check=$verdict rc=$rc violations=$nviol $obs"
