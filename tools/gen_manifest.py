#!/usr/bin/env python3
"""Regenerates /verif/MANIFEST.json from the claims below (single place to edit what is claimed)."""
import json, subprocess

TECH = "contract-based deductive verification: weakest-precondition VCs over go/ssa of the real functions, contracts in /repo/src/contracts_verif.go, discharged by z3/cvc5"
CLAIMS = {
 "C07": ("zero-annotation safety sweep over every package-main function reachable from processMongoLogStream (parseValue, UnmarshalOrdered, MarshalOrdered, RedactMongoLog, redactCommand, redactNamespace, redactQueryValues, redactArrayValuesWithKey, redactArrayValues, redactPipelineStage, getOp, traverseMapPath, augmentOp, RemoveElementAfter, RemoveElementsBeforeIncluding, redactScalarValue, redactString, reMatchesAnyKeyInPath, IsEmail, isRedactableFieldPatternInArray, isInSearchStage, redactFieldNamesFromPlanSummary, ParsePlanSummary, HashName, addOneToBar, processMongoLogStream): every unchecked type assertion, slice/string index, slice expression, nil dereference, nil-receiver method call, interface comparison, make() size and explicit panic is an obligation, with only the thin preconditions needed (non-empty key path, table arguments are operator tables); processMongoLogStream: a non-nil result implies a writer or scanner failure (a bad line never ends the run).",
         "A-OM (ordered-map model), A-JSON (Token in key position yields a string: explicit assume_after, listed), VAL-INV (no typed-nil map pointer inside an interface value: obligation at every MakeInterface, assumed at every type test), dependencies do not panic on non-nil receivers; stack exhaustion by extreme nesting and the scanner's 64 KiB limit are not decided; 'at most one WELL-FORMED output line' rests on the serialiser contracts of C03"),
 "C08": ("contracts on processMongoLogStream (loop invariant: no write to the output writer and no scan has failed), ProcessMongoLogFile, ProcessMongoLogFileFromReader and the redact closure main$1 (every os.Exit has a non-zero code; normal return implies no failed writer / scanner / open). Ghost state wfailOn/scanErr/openFail is driven by the ASSUMED contracts of fmt.Fprintln, bufio.Scanner, FileReader.Open and gzip.NewReader; the fault is a nondeterministic choice in every iteration, so every fault position is covered at once.",
         "A-SCAN (gzip damage / read errors surface through Scanner.Err), A-FMT (Fprintln returns the writer's error); 'what was written is a prefix of whole lines' is argued from one Fprintln per iteration, not proved as a sequence property; RedactMongoLog/MarshalOrdered bodies are used by trusted contract here"),
 "C09": ("contracts on redactString, Encrypt, Decrypt, keysetHandleFromRawKey, ReadKeyFromFile and the decrypt closure main$2, plus the spec-level round-trip lemma: decrypt prints daeadDec(key-on-disk, b64dec(arg)), redact emits b64enc(daeadEnc(key, bytes(s))), every error path exits non-zero without printing a value.",
         "A-TINK (round trip; wrong key / altered ciphertext fail) and A-B64 are assumed, not decided; 'the handle built by keysetHandleFromRawKey holds exactly the raw key' is a trusted postcondition (protobuf plumbing not modelled)"),
 "C10": ("postconditions of redactString for all strings and keys: in encrypt mode the result is the ciphertext of s under the key or the placeholder, never s; in placeholder mode exactly the placeholder; --encrypt flag wiring in main$1.",
         "A-TINK for determinism/injectivity of the primitive; 'every replaced string goes through redactString' belongs to the walker contracts"),
 "C11": ("contracts on FileExists, ReadKeyFromFile, WriteKeyToFile, GenerateKey and the key segment of main$1 over a ghost file system (kind/data/writes/perm per path): an existing key path is never written, an unusable key never leads to a normal return or to output, a new key is stored 0600 and read back as the same key (lemma), the key in use when lines are processed is the persisted one (precondition of the processing functions).",
         "A-OS (ghost file-system model of Stat/ReadFile/WriteFile), rand.Read; pairwise distinctness of generated keys is probabilistic and not decided; FileExists may panic on Stat errors other than not-exist (allowed by the statement: non-zero exit, nothing overwritten)"),
 "C13": ("HashName: loop invariant MapP (component j of the output is pseudo(prefix, component j of the split name)), postcondition result == HashNameSpec(prefix, name) with HashNameSpec = join(map(pseudo, split(trimLeft(name,'$'),'.'))), pseudo = prefix_%x of the first 8 bytes of SHA-256; lemmas: a leading '$' does not change the result, every component has the 8-byte (16 hex digit) form. RedactedFieldMapping is write-only (never read).",
         "A-STR (Split/Join/TrimLeft), A-FMT (%x of 8 bytes is 16 hex digits), A-SHA; 'different components always receive different pseudonyms' is collision resistance of 64 bits of SHA-256: assumed, NOT decided"),
 "C16": ("contracts on GetStartAndEndDates (window arithmetic with 64-bit range obligations), GetHostsFromConnectionString (accumulator MapStrip: hosts of the connection string in order, ports stripped), getAtlasClusterInfo / downloadClusterLogsForHost (exactly one request on success, to BaseURL + documented path, endDate/startDate in that order, through the digest transport), DownloadClusterLogs (accumulator ReqAcc: request log = cluster lookup followed by one download per member host in order), NewAtlasClient (BaseURL constant), main$1 (file i of the download goes to <outputFile>.<i>).",
         "A-HTTP, connstring.Parse, net.SplitHostPort assumed; 'downloaded bytes stored verbatim' rests on the assumed contract of io.Copy; SRV connection strings are handled by the code but the request-sequence claim is stated for the standard scheme"),
 "C17": ("ghost set tmp of temp files: CreateTemp adds a fresh name, Remove deletes (A-RM); contracts on downloadClusterLogsForHost, DownloadClusterLogs (loop invariant tmp = old ∪ set(logFiles)), DeleteClusterLogs (loop invariant tmp = old minus prefix), the cleanup closure main$1$1, and exit_requires tmp = ∅ at every os.Exit and at return of main$1.",
         "A-OS, A-RM (removing a file this process created succeeds); set axioms of prelude.vc"),
 "C18": ("WellDefined written from the statement over the 13 switches (values, not only presence); main$1: at every os.Exit: code != 0, not-well-defined implies no side effect so far and a message on stderr, well-defined implies some environment operation was attempted (so it is not a flag rejection); normal return implies well-defined.",
         "A-COBRA (flag cells bound to the variables), os.Stdin.Stat; side effects are the ghost counter 'effects' incremented by the assumed contracts of os.Create/WriteFile/CreateTemp/http.Client.Do"),
 "C20": ("secrecy (flow) clause over the SSA of every function of package main: the private key (flag cell, ATLAS_PRIVATE_KEY, privateKey parameters) is used only in the emptiness test, as the privateKey argument of the three Atlas client functions and in the store into digest.Transport.Password; every other use (fmt.*, Sprintf/URL, headers, SetBasicAuth, errors, other fields, globals, closures, returns) fails a named obligation; plus the SMT obligation that http.Client.Do is called with the digest transport.",
         "A-HTTP: what digest.Transport and net/http do with Password (answer challenges only) is the dependency's contract, not decided; the flow analysis is conservative (value taint of strings, unknown callee = sink)"),
}
props=[json.loads(l) for l in open('/verif/properties.jsonl')]
old=json.load(open('/verif/MANIFEST.json'))
na_old={x['property_id']:x['reason'] for x in old.get('not_applicable',[])}
checks=[]
for p in props:
    pid=p['id']
    if pid not in CLAIMS: continue
    text,note=CLAIMS[pid]
    checks.append({"property_id":pid,"quick_cmd":"./check %s --tier quick"%pid,"thorough_cmd":"./check %s --tier thorough"%pid,
      "evidence_file":"/verif/evidence/%s.json"%pid,"replay_cmd_template":"./check --replay {path}","engine":"govc",
      "level_claimed":{"category":"proof","text":text,"design_ref":"DESIGN.md section 6 (%s)"%pid},
      "level_note":note,"technique":TECH})
NA_REASON = {}
try:
    NA_REASON=json.load(open('/verif/tools/not_applicable.json'))
except Exception: pass
na=[{"property_id":p['id'],"reason":NA_REASON.get(p['id'], na_old.get(p['id'],"check not built yet (engine under construction; contract plan in DESIGN.md section 6)"))} for p in props if p['id'] not in CLAIMS]
hooks=subprocess.run(['git','-C','/repo','log','--format=%h %s'],capture_output=True,text=True).stdout.splitlines()
hook_commits=[l.split()[0] for l in hooks if 'verif hook' in l]
m={"version":1,
 "setup_cmd":"cd /verif/engine && GOFLAGS=-mod=mod GOPROXY=off go build -o /verif/bin/govc .",
 "hooks":{"guard":"verif","enable":"-tags verif (the only hook is the comment-only contract file /repo/src/contracts_verif.go, //go:build verif)",
   "baseline_off_cmd":"cd /repo && GOFLAGS=-mod=mod GOPROXY=off go test -vet=off -count=1 -timeout 25m ./...","source_commits":hook_commits[::-1],"add_only":True},
 "engines":[{"name":"govc","path":"/verif/engine","serves_properties":sorted(CLAIMS),"kind_free_text":"deductive verifier for the Go subset used by anonymongo: VC generation over go/ssa (passive DAG encoding, loops cut at invariants, calls by contract), SMT back ends z3 4.8.12 / z3 5.1.0 / cvc5 1.0; non-SMT back ends: flow (taint over SSA), table/ground evaluation"}],
 "checks":checks,
 "notes":"See DESIGN.md. Genuine defects found and repaired are listed in known_findings.json (status fixed).",
 "not_applicable":na}
json.dump(m,open('/verif/MANIFEST.json','w'),indent=1)
print("claimed:",[c['property_id'] for c in checks])
