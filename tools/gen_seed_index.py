#!/usr/bin/env python3
"""Rewrites seeded/INDEX.md from the seeded/<id>/meta.json files (which tools/eval_all_seeds.py writes)."""
import json, os
rows=[]
for pid in sorted(os.listdir('/verif/seeded')):
    mp='/verif/seeded/%s/meta.json'%pid
    if not os.path.exists(mp): continue
    for ch in json.load(open(mp))['changes']:
        if not os.path.exists('/verif/seeded/%s/%s'%(pid,ch['patch'])): continue
        rows.append((pid,ch['change'],ch))
with open('/verif/seeded/INDEX.md','w') as f:
    f.write("# Seeded changes\n\nEach change was produced by a sub-agent that saw only the property text and a scratch worktree, and was re-confirmed by\n`tools/eval_all_seeds.py` on the current tree: the unedited suite passes with it, its demonstration fails with it and passes\nwithout it. `check` = result of `./check <id>` against the change (scratch worktree, `VERIF_REPO`).\n\n")
    f.write("%d changes; caught: %d.\n\n"%(len(rows),sum(1 for r in rows if r[2].get('check')=='CAUGHT')))
    f.write("| property | change | needs to manifest | confirmed (demo clean / suite with / demo with) | check | obligations reported (first 3) |\n|---|---|---|---|---|---|\n")
    for pid,x,ch in rows:
        needs=(ch.get("needs_to_manifest") or [""])[0][:260].replace("|","/")
        f.write("| %s | %s%s | %s | %s / %s / %s | %s | %s |\n"%(pid,x," (ported)" if ch.get("ported_from") else "",needs,ch.get("demo_on_unchanged_tree"),ch.get("suite_with_change"),ch.get("demo_with_change"),ch.get("check"),' '.join('`%s`'%o for o in ch.get("obligations_reported",[]))))
    f.write("\nNot kept (see the README in `<id>/not-kept/`): C14 change B; C03 change G and C06 change C (on the repaired tree the existing suite fails with them).\n")
print(len(rows), sum(1 for r in rows if r[2].get('check')=='CAUGHT'))
