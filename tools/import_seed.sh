#!/bin/sh
# import_seed.sh <Cxx> <srcdir> : copies patch{A,B}.diff / demo / notes delivered by a seeding sub-agent into
# /verif/seeded/<Cxx>/ under the next free letters, then confirms each with eval_seed.sh.
id=$1; src=$2; dst=/verif/seeded/$id
mkdir -p "$dst"
for x in A B C; do
  [ -f "$src/patch$x.diff" ] && [ -f "$src/demo${x}_test.go" ] || continue
  for y in A B C D E F G H I J K L; do [ -f "$dst/patch$y.diff" ] || break; done
  cp "$src/patch$x.diff" "$dst/patch$y.diff"
  sed "s/TestDemo\([A-Za-z0-9_]*\)/TestDemo\1/" "$src/demo${x}_test.go" > "$dst/demo${y}_test.go"
  [ -f "$src/notes$x.md" ] && cp "$src/notes$x.md" "$dst/notes$y.md"
  echo "imported $id $x -> $y"
  GOVC_NO_WITNESS=1 /verif/tools/eval_seed.sh "$dst" "$id" "patch$y.diff" "demo${y}_test.go"
done
