#!/bin/sh
# port_seed.sh <Cxx> <letter> : re-bases a seeded patch that no longer applies onto /repo HEAD with a 3-way merge (scratch worktree)
export GOFLAGS=-mod=mod GOPROXY=off
wt=$(mktemp -d /tmp/port.XXXX); rmdir $wt; git -C /repo worktree add -q --detach $wt HEAD
cd $wt && git apply --3way /verif/seeded/$1/patch$2.diff 2>&1 | tail -1
if git diff --name-only --diff-filter=U | grep -q .; then echo CONFLICT; git diff | head -60; else go test -vet=off -count=1 ./... 2>&1 | tail -1; cp /verif/seeded/$1/patch$2.diff /verif/seeded/$1/patch$2.original-pinned-tree.diff; git diff HEAD -- src > /verif/seeded/$1/patch$2.diff; fi
cd /; git -C /repo worktree remove --force $wt
