#!/bin/sh
# port_seed2.sh <Cxx> <letter> : like port_seed.sh but with GNU patch and fuzz (for patches whose context lines moved or changed
# because of a later repair); keeps the original as patch<letter>.original-pinned-tree.diff
export GOFLAGS=-mod=mod GOPROXY=off
wt=$(mktemp -d /tmp/port.XXXX); rmdir $wt; git -C /repo worktree add -q --detach $wt HEAD
cd $wt
if patch -p1 -F3 -s --no-backup-if-mismatch < /verif/seeded/$1/patch$2.diff >/tmp/port.$$ 2>&1 && ! ls src/*.rej >/dev/null 2>&1; then
  if (go build -o /dev/null ./src && go test -vet=off -count=1 ./... ) >/dev/null 2>&1; then
    [ -f /verif/seeded/$1/patch$2.original-pinned-tree.diff ] || cp /verif/seeded/$1/patch$2.diff /verif/seeded/$1/patch$2.original-pinned-tree.diff
    git diff HEAD -- src > /verif/seeded/$1/patch$2.diff; echo "PORTED $1 $2"
  else echo "BUILD-OR-SUITE-FAILS $1 $2"; fi
else echo "REJECTS $1 $2: $(cat /tmp/port.$$ | head -3 | tr '\n' ' ')"; fi
rm -f /tmp/port.$$
cd /; git -C /repo worktree remove --force $wt
