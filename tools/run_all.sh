#!/bin/sh
# run_all.sh [tier] : every check on /repo's working tree; prints one line per property and exits 1 if any check is not clean
tier=${1:-quick}; rc=0
for i in 01 02 03 04 05 06 07 08 09 10 11 12 13 14 15 16 17 18 19 20; do
  /verif/check C$i --tier $tier > /tmp/q_C$i.log 2>&1; e=$?
  echo "C$i exit=$e $(grep -c '^VIOLATION' /tmp/q_C$i.log) viol; $(tail -1 /tmp/q_C$i.log)"
  [ $e = 0 ] || { rc=1; grep '^VIOLATION' /tmp/q_C$i.log | head -5 | cut -c1-240; }
done
exit $rc
